package main

import (
	"fmt"
	"go/ast"
	"go/token"
	"go/types"
	"sort"
	"strconv"
	"strings"

	"golang.org/x/tools/go/ssa"
)

// ---- EOF-MID-HEADER ----------------------------------------------------------
//
// io.EOF is the library's word for "the input ended cleanly". Once the binary
// header's magic number has been read the header has begun, so a source that
// ends at any later field boundary (with a bgzf.Reader as source: a stream cut
// at a BGZF block boundary inside a header of more than one block) stops in
// the middle of the header. binary.Read and io.ReadFull answer io.EOF – not
// io.ErrUnexpectedEOF – when the source ends before the first byte they ask
// for, so an error of such a read that is returned as it is tells the caller
// "clean end" (C10: a clean end only at a block and record boundary).
//
// Decided on the value flow of the decoder: the error value of every read of
// the source after the first one (the read that dominates the others: an empty
// input may be io.EOF) reaches a return only
//   – on paths where it has been compared with io.EOF and found different, or
//   – through a function of the module that does not return its argument on
//     its io.EOF edge, or through any function outside the module (wrapping
//     makes a different value).
// A helper of the module that is handed the source is looked into the same
// way, without the exemption for its first read; if none of its reads can
// come back raw its result needs no conversion by the caller.

type eofFlow struct {
	c    *Ctx
	src  map[*ssa.Function]bool
	memo map[*ssa.Function]int // 1 may return raw io.EOF of a read, 2 not
}

// readCalls lists the calls of fn that are handed v (the source) and have an
// error result, with that error value.
type readCall struct {
	call *ssa.Call
	err  ssa.Value
}

func (e *eofFlow) readCalls(fn *ssa.Function, src ssa.Value) []readCall {
	var out []readCall
	allInstrs(fn, func(ins ssa.Instruction) {
		call, ok := ins.(*ssa.Call)
		if !ok {
			return
		}
		uses := call.Call.IsInvoke() && call.Call.Value == src
		for _, a := range call.Call.Args {
			if a == src {
				uses = true
			}
			if mi, ok := a.(*ssa.MakeInterface); ok && mi.X == src {
				uses = true
			}
			if ci, ok := a.(*ssa.ChangeInterface); ok && ci.X == src {
				uses = true
			}
		}
		if !uses {
			return
		}
		var ev ssa.Value
		if isErrorTyped(call) {
			ev = call
		} else if tup, ok := call.Type().(*types.Tuple); ok {
			for _, ref := range *call.Referrers() {
				if ex, ok := ref.(*ssa.Extract); ok && types.Identical(tup.At(ex.Index).Type(), errorType) {
					ev = ex
				}
			}
		}
		if ev != nil {
			out = append(out, readCall{call, ev})
		}
	})
	sort.Slice(out, func(i, j int) bool { return out[i].call.Pos() < out[j].call.Pos() })
	return out
}

// guardedAt: is the CFG edge from→to (to == nil: the block from itself) only
// taken with ev != io.EOF?
func guardedAt(fn *ssa.Function, ev ssa.Value, from, to *ssa.BasicBlock) bool {
	for _, b := range fn.Blocks {
		ifi := ifOf(b)
		if ifi == nil {
			continue
		}
		bo, ok := ifi.Cond.(*ssa.BinOp)
		if !ok || (bo.Op != token.EQL && bo.Op != token.NEQ) {
			continue
		}
		var other ssa.Value
		switch {
		case bo.X == ev:
			other = bo.Y
		case bo.Y == ev:
			other = bo.X
		default:
			continue
		}
		if !isGlobalLoad(other, "io", "EOF") {
			continue
		}
		k := 0 // the edge on which ev != io.EOF
		if bo.Op == token.EQL {
			k = 1
		}
		if dominatedByEdge(fn, b, k, from) {
			return true
		}
		if to != nil && from == b && b.Succs[k] == to && b.Succs[1-k] != to {
			return true
		}
	}
	return false
}

// raw: can v, used on the edge from→to (or in block from), be ev itself with
// ev == io.EOF not excluded?
func (e *eofFlow) raw(fn *ssa.Function, v, ev ssa.Value, from, to *ssa.BasicBlock, seen map[ssa.Value]bool) bool {
	if v == ev {
		return !guardedAt(fn, ev, from, to)
	}
	if seen[v] {
		return false
	}
	seen[v] = true
	switch x := v.(type) {
	case *ssa.Phi:
		for i, ed := range x.Edges {
			if e.raw(fn, ed, ev, x.Block().Preds[i], x.Block(), seen) {
				return true
			}
		}
	case *ssa.Call:
		callee := staticCallee(&x.Call)
		if callee == nil || !e.src[callee] {
			return false // a value made elsewhere is not the sentinel
		}
		for i, a := range x.Call.Args {
			if a != ev && !(func() bool { p, ok := a.(*ssa.Phi); return ok && e.raw(fn, p, ev, from, to, seen) })() {
				continue
			}
			if a == ev && guardedAt(fn, ev, x.Block(), nil) {
				continue
			}
			if i < len(callee.Params) && e.passesEOF(callee, callee.Params[i]) {
				return true
			}
		}
	}
	return false
}

// passesEOF: can callee return its parameter p when p == io.EOF?
func (e *eofFlow) passesEOF(callee *ssa.Function, p *ssa.Parameter) bool {
	for _, b := range callee.Blocks {
		ret, ok := b.Instrs[len(b.Instrs)-1].(*ssa.Return)
		if !ok {
			continue
		}
		for i := range ret.Results {
			if !isErrorTyped(ret.Results[i]) {
				continue
			}
			if e.raw(callee, retValue(ret, i), p, b, nil, map[ssa.Value]bool{}) {
				return true
			}
		}
	}
	return false
}

// rawReturns lists the reads of fn (source: src) whose error can be returned as
// it is; exemptFirst leaves out the read that dominates all the others.
func (e *eofFlow) rawReturns(fn *ssa.Function, src ssa.Value, exemptFirst bool) (reads []readCall, first int, bad map[ssa.Value]string, undecided string) {
	reads = e.readCalls(fn, src)
	bad = map[ssa.Value]string{}
	first = -1
	if exemptFirst {
		for i, rc := range reads {
			all := true
			for j, o := range reads {
				if i != j && !instrDominates(rc.call, o.call) {
					all = false
				}
			}
			if all {
				first = i
			}
		}
		if first < 0 && len(reads) > 0 {
			return reads, first, bad, "no read of the source dominates the others: cannot tell which one may see the clean end"
		}
	}
	for i, rc := range reads {
		if i == first {
			continue
		}
		// a helper of the module that cannot hand back a raw io.EOF
		if callee := staticCallee(&rc.call.Call); callee != nil && e.src[callee] {
			if !e.helperMayReturnEOF(callee, rc.call, src) {
				continue
			}
		}
		for _, b := range fn.Blocks {
			ret, ok := b.Instrs[len(b.Instrs)-1].(*ssa.Return)
			if !ok {
				continue
			}
			for k := range ret.Results {
				if !isErrorTyped(ret.Results[k]) {
					continue
				}
				if e.raw(fn, retValue(ret, k), rc.err, b, nil, map[ssa.Value]bool{}) {
					bad[rc.err] = e.c.Pos(ret.Pos())
				}
			}
		}
	}
	return reads, first, bad, ""
}

func (e *eofFlow) helperMayReturnEOF(callee *ssa.Function, call *ssa.Call, src ssa.Value) bool {
	if m := e.memo[callee]; m != 0 {
		return m == 1
	}
	e.memo[callee] = 1 // recursion: assume the worst
	may := false
	found := false
	for i, a := range call.Call.Args {
		if a != src || i >= len(callee.Params) {
			continue
		}
		found = true
		reads, _, bad, und := e.rawReturns(callee, callee.Params[i], false)
		if len(bad) > 0 || und != "" || len(reads) == 0 {
			may = true
		}
	}
	if !found {
		may = true
	}
	if !may {
		e.memo[callee] = 2
	}
	return may
}

func ruleEOFMidHeader(c *Ctx, r *Rep, tier string) {
	rule := "EOF-MID-HEADER"
	fn := c.Func("sam", "(*Header).DecodeBinary")
	e := &eofFlow{c: c, src: map[*ssa.Function]bool{}, memo: map[*ssa.Function]int{}}
	for _, f := range c.SrcFuncs() {
		e.src[f] = true
	}
	if len(fn.Params) < 2 {
		r.Fail(rule, c.FnName(fn)+"#source", c.Pos(fn.Pos()), "no source parameter: undecided")
		return
	}
	src := fn.Params[1]
	reads, firstIdx, bad, und := e.rawReturns(fn, src, true)
	if und != "" {
		r.Instance(rule, 1)
		r.Fail(rule, c.FnName(fn)+"#first-read", c.Pos(fn.Pos()), und)
		return
	}
	n := 0
	for i, rc := range reads {
		name := calleeFullName(&rc.call.Call)
		if i == firstIdx {
			continue // the dominating read: an empty input is a clean end
		}
		n++
		r.Instance(rule, 1)
		key := fmt.Sprintf("%s#eof:%s~%d", c.FnName(fn), name, n)
		why := ""
		if at, ok := bad[rc.err]; ok {
			why = "the error of this read of the source is returned as it is at " + at + ": when the source ends exactly before the field (a BGZF stream cut at a block boundary inside the header) the caller is told io.EOF, the clean end of input"
		}
		r.Check(why == "", rule, key, c.Pos(rc.call.Pos()), "io.EOF of a read after the magic number is not returned unchanged", why)
	}
}

// ---- GEN-BIND ------------------------------------------------------------------
//
// Since the read-ahead repair every instruction to the read-ahead goroutine
// carries a generation and every result the generation of the instruction it
// was read for; nextBlock goes on waiting past a result only when its
// generation is not the Reader's (PIPE-STALL's consumer clause). That is safe
// only if a result read for the latest instruction can never look stale – or
// the Reader drops it and waits for a goroutine that is parked:
//
//	#gen-sent     the generation in the value sent on control is Reader.gen as it
//	              is when the sending function returns (loaded after the last
//	              store, or the very value stored);
//	#gen-stamped  in the goroutine, the decompressor sent on working has been
//	              stamped with the gen field of the same instruction value whose
//	              next field was the offset given to nextBlockAt: both are read
//	              from the same variable with no receive into it (and no store to
//	              the field) in between.
func ruleGenBind(c *Ctx, r *Rep, tier string) {
	rule := "GEN-BIND"
	fControl := c.Field("bgzf", "Reader", "control")
	fWorking := c.Field("bgzf", "Reader", "working")
	fRGen := c.Field("bgzf", "Reader", "gen")
	fDGen := c.Field("bgzf", "decompressor", "gen")
	fIGen := c.Field("bgzf", "readAhead", "gen")
	fINext := c.Field("bgzf", "readAhead", "next")
	nba := c.Func("bgzf", "(*decompressor).nextBlockAt")

	chanField := func(v ssa.Value) *types.Var { f, _ := loadedField(v); return f }
	storesTo := func(fn *ssa.Function, f *types.Var) []*ssa.Store {
		var out []*ssa.Store
		allInstrs(fn, func(ins ssa.Instruction) {
			if st, ok := ins.(*ssa.Store); ok {
				if fa, ok := st.Addr.(*ssa.FieldAddr); ok && fieldVarOfAddr(fa) == f {
					out = append(out, st)
				}
			}
		})
		return out
	}

	// #gen-sent
	for _, fn := range c.FuncsIn("bgzf") {
		fn := fn
		k := 0
		allInstrs(fn, func(ins ssa.Instruction) {
			snd, ok := ins.(*ssa.Send)
			if !ok || chanField(snd.Chan) != fControl {
				return
			}
			k++
			r.Instance(rule, 1)
			key := fmt.Sprintf("%s#gen-sent~%d", c.FnName(fn), k)
			// the value sent: a load of a local composite, or a struct built in registers
			var genVal ssa.Value
			if u, ok := snd.X.(*ssa.UnOp); ok && u.Op == token.MUL {
				if al, ok := u.X.(*ssa.Alloc); ok {
					for _, ref := range *al.Referrers() {
						if fa, ok := ref.(*ssa.FieldAddr); ok && fieldVarOfAddr(fa) == fIGen {
							for _, r2 := range *fa.Referrers() {
								if st, ok := r2.(*ssa.Store); ok && st.Addr == fa {
									genVal = st.Val
								}
							}
						}
					}
				}
			}
			why := ""
			switch {
			case genVal == nil:
				why = "the generation of the instruction sent on control is not set (the zero value): every result is stamped 0 and looks stale after the first redirect"
			default:
				f, _ := loadedField(genVal)
				stores := storesTo(fn, fRGen)
				if f == fRGen {
					// a load of Reader.gen: no store to Reader.gen may follow it
					ld := genVal.(ssa.Instruction)
					for _, st := range stores {
						if _, reach := pathTo(locOf(ld), is(st), nil, nil); reach {
							why = "Reader.gen is stored again (" + c.Pos(st.Pos()) + ") after the value sent on control was read from it: results for this instruction carry a generation that is not the Reader's and are dropped as stale"
						}
					}
				} else {
					// the very value stored last
					okv := false
					for _, st := range stores {
						if st.Val == genVal && instrDominates(st, snd) {
							okv = true
							for _, st2 := range stores {
								if st2 != st {
									if _, reach := pathTo(locOf(st), is(st2), nil, nil); reach {
										okv = false
									}
								}
							}
						}
					}
					if !okv {
						why = "the generation sent on control is neither Reader.gen read after its last store nor the value stored to it"
					}
				}
			}
			r.Check(why == "", rule, key, c.Pos(snd.Pos()), "the generation sent is the Reader's generation when the function returns", why)
		})
	}

	// #gen-stamped
	for _, fn := range c.FuncsIn("bgzf") {
		fn := fn
		k := 0
		allInstrs(fn, func(ins ssa.Instruction) {
			snd, ok := ins.(*ssa.Send)
			if !ok || chanField(snd.Chan) != fWorking {
				return
			}
			k++
			r.Instance(rule, 1)
			key := fmt.Sprintf("%s#gen-stamped~%d", c.FnName(fn), k)
			dec := snd.X
			// the call that fills dec, and the stamp
			var call *ssa.Call
			var stamp *ssa.Store
			allInstrs(fn, func(x ssa.Instruction) {
				if cl, ok := x.(*ssa.Call); ok && staticCallee(&cl.Call) == nba && len(cl.Call.Args) > 1 && cl.Call.Args[0] == dec && instrDominates(cl, snd) {
					call = cl
				}
				if st, ok := x.(*ssa.Store); ok {
					if fa, ok := st.Addr.(*ssa.FieldAddr); ok && fieldVarOfAddr(fa) == fDGen && fa.X == dec && instrDominates(st, snd) {
						stamp = st
					}
				}
			})
			cellOf := func(v ssa.Value, f *types.Var) (ssa.Value, ssa.Instruction) {
				u, ok := v.(*ssa.UnOp)
				if !ok || u.Op != token.MUL {
					return nil, nil
				}
				fa, ok := u.X.(*ssa.FieldAddr)
				if !ok || fieldVarOfAddr(fa) != f {
					return nil, nil
				}
				return fa.X, u
			}
			why := ""
			switch {
			case call == nil:
				why = "no nextBlockAt call on the decompressor dominates the send: undecided"
			case stamp == nil:
				why = "the decompressor is sent on working without its generation having been set on every path: the result keeps the generation of an earlier use and is dropped as stale"
			default:
				c1, l1 := cellOf(stamp.Val, fIGen)
				c2, l2 := cellOf(call.Call.Args[1], fINext)
				if c1 == nil || c2 == nil || c1 != c2 {
					why = "generation and offset do not come from the same instruction variable"
					break
				}
				first, second := l1, l2
				if instrDominates(l2, l1) {
					first, second = l2, l1
				}
				writes := func(x ssa.Instruction) bool {
					st, ok := x.(*ssa.Store)
					if !ok {
						return false
					}
					if st.Addr == c1 {
						return true
					}
					if fa, ok := st.Addr.(*ssa.FieldAddr); ok && fa.X == c1 {
						return fieldVarOfAddr(fa) == fIGen || first == l1
					}
					return false
				}
				if wr, reach := pathTo(locOf(first), writes, is(second), nil); reach {
					if _, on := pathTo(locOf(wr), is(second), nil, nil); on {
						why = "between reading the generation and reading the offset the instruction variable is written (" + c.Pos(wr.Pos()) + "): a result read for the new instruction is stamped with the old generation (or the other way round)"
					}
				}
			}
			r.Check(why == "", rule, key, c.Pos(snd.Pos()), "stamp and offset are taken from one instruction", why)
		})
	}
}

// ---- SYNC-REDIRECT -------------------------------------------------------------
//
// When the Reader fills a decompressor of the pool itself (one it received from
// waiting or working: the synchronous fall-back of nextBlock, Seek's slow path)
// the read-ahead chain is, by construction, not where the Reader is – that is
// why the Reader had to read – or it has ended. Unless the goroutine is told
// where to go on before the Reader next waits for it, the Reader waits on a
// goroutine that is parked or produces what is not wanted. R4 decides this for
// Seek with its path walker (the decompressor there may also be the
// synchronous one, Reader.dec); this rule decides it for every other call of
// nextBlockAt whose receiver is, on every path, a decompressor received from the
// pool: from the call every path to a return passes a send on control (directly
// or through a helper that sends on all its paths).
func ruleSyncRedirect(c *Ctx, r *Rep, tier string) {
	rule := "SYNC-REDIRECT"
	m := newReaderModel(c, htsReaderCfg)
	nba := c.Func("bgzf", "(*decompressor).nextBlockAt")
	fWaiting := c.Field("bgzf", "Reader", "waiting")
	fWorking := c.Field("bgzf", "Reader", "working")
	// methods that return their receiver on every path
	identity := func(f *ssa.Function) bool {
		if f == nil || len(f.Params) == 0 || f.Blocks == nil {
			return false
		}
		n := 0
		for _, b := range f.Blocks {
			if ret, ok := b.Instrs[len(b.Instrs)-1].(*ssa.Return); ok {
				if len(ret.Results) != 1 || ret.Results[0] != f.Params[0] {
					return false
				}
				n++
			}
		}
		return n > 0
	}
	var fromPool func(v ssa.Value, seen map[ssa.Value]bool) bool
	fromPool = func(v ssa.Value, seen map[ssa.Value]bool) bool {
		if seen[v] {
			return true
		}
		seen[v] = true
		switch x := v.(type) {
		case *ssa.UnOp:
			if x.Op == token.ARROW {
				f, _ := loadedField(x.X)
				return f == fWaiting || f == fWorking
			}
		case *ssa.Extract:
			if u, ok := x.Tuple.(*ssa.UnOp); ok && u.Op == token.ARROW && x.Index == 0 {
				f, _ := loadedField(u.X)
				return f == fWaiting || f == fWorking
			}
		case *ssa.Call:
			if callee := staticCallee(&x.Call); identity(callee) && len(x.Call.Args) > 0 {
				return fromPool(x.Call.Args[0], seen)
			}
		case *ssa.Phi:
			for _, e := range x.Edges {
				if !fromPool(e, seen) {
					return false
				}
			}
			return true
		}
		return false
	}
	for _, fn := range m.fns {
		if m.goEntry[fn] || rootFn(fn).Name() == m.cfg.newReader {
			continue
		}
		fn := fn
		k := 0
		allInstrs(fn, func(ins ssa.Instruction) {
			call, ok := ins.(*ssa.Call)
			if !ok || staticCallee(&call.Call) != nba || len(call.Call.Args) == 0 {
				return
			}
			if !fromPool(call.Call.Args[0], map[ssa.Value]bool{}) {
				// the receiver is a parameter of a helper: decided per call site
				// that hands the helper a pool decompressor, under what that site
				// knows about the Reader's mode (Reader.dec == nil)
				if pi := paramIndexThroughIdentity(call.Call.Args[0], fn, identity); pi >= 0 {
					for _, g := range m.fns {
						if m.goEntry[g] || rootFn(g).Name() == m.cfg.newReader {
							continue
						}
						g := g
						allInstrs(g, func(x ssa.Instruction) {
							cs, ok := x.(*ssa.Call)
							if !ok || staticCallee(&cs.Call) != fn || pi >= len(cs.Call.Args) || !fromPool(cs.Call.Args[pi], map[ssa.Value]bool{}) {
								return
							}
							k++
							r.Instance(rule, 1)
							key := fmt.Sprintf("%s#sync-redirect-via:%s~%d", c.FnName(g), fn.Name(), k)
							facts := receiverFactsAt(g, cs)
							edgeOK := func(from, to *ssa.BasicBlock) bool {
								ifi := ifOf(from)
								if ifi == nil || from.Succs[0] == from.Succs[1] {
									return true
								}
								bo, ok := ifi.Cond.(*ssa.BinOp)
								if !ok || (bo.Op != token.EQL && bo.Op != token.NEQ) || !isNilConst(bo.Y) {
									return true
								}
								f, base := loadedField(bo.X)
								if f == nil || len(fn.Params) == 0 || origin(base) != ssa.Value(fn.Params[0]) {
									return true
								}
								isNil, known := facts[f]
								if !known {
									return true
								}
								nilEdge := 0
								if bo.Op == token.NEQ {
									nilEdge = 1
								}
								want := nilEdge
								if !isNil {
									want = 1 - nilEdge
								}
								return from.Succs[want] == to
							}
							var redirects func(y ssa.Instruction, depth int) bool
							redirects = func(y ssa.Instruction, depth int) bool {
								if m.isEff("send:control")(y) {
									return true
								}
								cl, ok := y.(*ssa.Call)
								if !ok || depth > 2 {
									return false
								}
								callee := staticCallee(&cl.Call)
								if callee == nil || callee.Blocks == nil || callee.Pkg != fn.Pkg {
									return false
								}
								_, all := mustPass(entryLoc(callee), isReturn, func(z ssa.Instruction) bool { return redirects(z, depth+1) }, nil)
								return all
							}
							_, inHelper := mustPass(locOf(call), isReturn, func(y ssa.Instruction) bool { return redirects(y, 0) }, edgeOK)
							_, inCaller := mustPass(locOf(cs), isReturn, func(y ssa.Instruction) bool { return redirects(y, 0) }, nil)
							why := ""
							if !inHelper && !inCaller {
								why = "after the Reader has filled a pool decompressor itself (through " + fn.Name() + ") a return can be reached without a send on control: the read-ahead goroutine stays where it was – elsewhere, or parked at the end of its chain – and the next wait on working does not return"
							}
							r.Check(why == "", rule, key, c.Pos(cs.Pos()), "a synchronous read with a pool decompressor is followed by a redirect on every path (helper examined under the caller's Reader mode)", why)
						})
					}
				}
				return
			}
			k++
			r.Instance(rule, 1)
			key := fmt.Sprintf("%s#sync-redirect~%d", c.FnName(fn), k)
			var redirects func(x ssa.Instruction, depth int) bool
			redirects = func(x ssa.Instruction, depth int) bool {
				if m.isEff("send:control")(x) {
					return true
				}
				cl, ok := x.(*ssa.Call)
				if !ok || depth > 2 {
					return false
				}
				callee := staticCallee(&cl.Call)
				if callee == nil || callee.Blocks == nil || callee.Pkg != fn.Pkg {
					return false
				}
				// a helper that sends on control on every path to its returns
				_, all := mustPass(entryLoc(callee), isReturn, func(y ssa.Instruction) bool { return redirects(y, depth+1) }, nil)
				return all
			}
			at, ok2 := mustPass(locOf(call), isReturn, func(x ssa.Instruction) bool { return redirects(x, 0) }, nil)
			why := ""
			if !ok2 {
				why = "after the Reader has filled a pool decompressor itself a return can be reached without a send on control"
				if at != nil {
					why += " (" + c.Pos(at.Pos()) + ")"
				}
				why += ": the read-ahead goroutine stays where it was – elsewhere, or parked at the end of its chain – and the next wait on working does not return"
			}
			r.Check(why == "", rule, key, c.Pos(call.Pos()), "a synchronous read with a pool decompressor is followed by a redirect on every path", why)
		})
	}
}

// ---- ATOMIC-COMPOSE ------------------------------------------------------------
//
// C14's last clause names Free among the operations that take effect atomically
// when several goroutines use one cache. Free is a function of the package, not
// a method: whatever it does to the cache it does through the Cache interface,
// and every method of the provided caches is a critical section of its own
// (LOCK-5). Two method calls on the shared cache on one path are therefore two
// operations, and another goroutine's Get or Put can fall between them (the
// unchanged tree read Cap()−Len(), then called Drop: a Get in between made Free
// evict a block that no order of the two operations evicts).
//
// Decided for every function of bgzf/cache, outside the cache types, that has a
// parameter of a cache interface type:
//
//	– on no path are there two dynamic calls on that parameter, except on paths
//	  that are only taken by foreign implementations: the not-ok edge of an
//	  assertion of the parameter to an interface that every cache type of the
//	  package implements;
//	– the methods such an assertion dispatches to are single critical sections
//	  (one acquisition of the receiver's mutex, not in a loop, nothing of the
//	  receiver touched after an explicit release).
func ruleAtomicCompose(c *Ctx, r *Rep, tier string) {
	rule := "ATOMIC-COMPOSE"
	allImpls := discoverCaches(c, hts_cacheCfg)
	la := newLockAnalysis(c, []string{"bgzf/cache"})
	for _, fn := range c.FuncsIn("bgzf/cache") {
		if fn.Signature.Recv() != nil || fn.Parent() != nil || fn.Blocks == nil {
			continue
		}
		for _, p := range fn.Params {
			if _, isI := p.Type().Underlying().(*types.Interface); !isI {
				continue
			}
			pit := p.Type().Underlying().(*types.Interface)
			if pit.NumMethods() == 0 {
				continue
			}
			var impls []cacheImpl
			for _, ci := range allImpls {
				if types.Implements(types.NewPointer(ci.named), pit) {
					impls = append(impls, ci)
				}
			}
			if len(impls) == 0 {
				continue
			}
			r.Instance(rule, 1)
			key := fmt.Sprintf("%s#one-operation:%s", c.FnName(fn), "param"+fmt.Sprint(indexOfParam(fn, p)))
			// dynamic calls on the parameter (or on a view of it)
			views := map[ssa.Value]bool{p: true}
			foreign := map[*ssa.BasicBlock]bool{}
			var dispatched []*types.Func
			why := ""
			allInstrs(fn, func(ins ssa.Instruction) {
				ta, ok := ins.(*ssa.TypeAssert)
				if !ok || ta.X != p {
					return
				}
				it, isI := ta.AssertedType.Underlying().(*types.Interface)
				if !isI || !ta.CommaOk {
					return
				}
				all := true
				for _, ci := range impls {
					if !types.Implements(types.NewPointer(ci.named), it) {
						all = false
					}
				}
				for _, ref := range *ta.Referrers() {
					ex, ok := ref.(*ssa.Extract)
					if !ok {
						continue
					}
					if ex.Index == 0 {
						views[ex] = true
					}
					if ex.Index == 1 && all {
						for _, b := range fn.Blocks {
							if ifi := ifOf(b); ifi != nil && ifi.Cond == ex {
								for _, t := range fn.Blocks {
									if dominatedByEdge(fn, b, 1, t) {
										foreign[t] = true
									}
								}
							}
						}
					}
				}
				if all {
					for i := 0; i < it.NumMethods(); i++ {
						dispatched = append(dispatched, it.Method(i))
					}
				}
			})
			var calls []*ssa.Call
			allInstrs(fn, func(ins ssa.Instruction) {
				if cl, ok := ins.(*ssa.Call); ok && cl.Call.IsInvoke() && views[cl.Call.Value] {
					calls = append(calls, cl)
				}
			})
			for _, a := range calls {
				if foreign[a.Block()] {
					continue
				}
				for _, b := range calls {
					if foreign[b.Block()] {
						continue
					}
					if _, reach := pathTo(locOf(a), is(b), nil, nil); reach {
						why = fmt.Sprintf("%s at %s and %s at %s are two operations on the shared cache on one path – each takes and releases the cache's lock on its own, and what another goroutine does in between (a Get, a Put) is not seen: the function's effect is not that of any sequential order", a.Call.Method.Name(), c.Pos(a.Pos()), b.Call.Method.Name(), c.Pos(b.Pos()))
					}
				}
			}
			r.Check(why == "", rule, key, c.Pos(fn.Pos()), fmt.Sprintf("at most one operation on the shared cache per path (%d dynamic calls, %d on paths of foreign implementations only)", len(calls), countForeign(calls, foreign)), why)

			// the methods dispatched to
			for _, m := range dispatched {
				for _, ci := range impls {
					sel := c.Prog.MethodSets.MethodSet(types.NewPointer(ci.named)).Lookup(m.Pkg(), m.Name())
					if sel == nil {
						continue
					}
					mf := c.Prog.MethodValue(sel)
					if mf == nil || mf.Blocks == nil {
						continue
					}
					la.ruleSingleSection(r, rule, []*ssa.Function{mf})
					// nothing of the receiver is touched after an explicit release
					r.Instance(rule, 1)
					k2 := c.FnName(mf) + "#nothing-after-release"
					w2 := ""
					allInstrs(mf, func(ins ssa.Instruction) {
						cl, ok := ins.(*ssa.Call)
						if !ok {
							return
						}
						op, ok := mutexOp(&cl.Call)
						if !ok || op.acquire {
							return
						}
						if bad, reach := pathTo(locOf(cl), func(x ssa.Instruction) bool {
							switch y := x.(type) {
							case *ssa.FieldAddr:
								return y.X == mf.Params[0] && !isMutexField(y)
							case *ssa.Call:
								return len(y.Call.Args) > 0 && y.Call.Args[0] == mf.Params[0]
							}
							return false
						}, nil, nil); reach {
							w2 = "after the release at " + c.Pos(cl.Pos()) + " the cache is used again at " + c.Pos(bad.Pos())
						}
					})
					r.Check(w2 == "", rule, k2, c.Pos(mf.Pos()), "the critical section covers the whole operation", w2)
				}
			}
		}
	}
}

func indexOfParam(fn *ssa.Function, p *ssa.Parameter) int {
	for i, q := range fn.Params {
		if q == p {
			return i
		}
	}
	return -1
}

func countForeign(calls []*ssa.Call, foreign map[*ssa.BasicBlock]bool) int {
	n := 0
	for _, cl := range calls {
		if foreign[cl.Block()] {
			n++
		}
	}
	return n
}

func isMutexField(fa *ssa.FieldAddr) bool {
	t := fa.Type().(*types.Pointer).Elem()
	if n, ok := t.(*types.Named); ok && n.Obj().Pkg() != nil && n.Obj().Pkg().Path() == "sync" {
		return true
	}
	return false
}

// ---- FREE-COUNT ----------------------------------------------------------------
//
// "Free … leave[s] the stated … free slots": what the caches' free(n) does inside
// its critical section, as arithmetic over the receiver's capacity and the length
// of its table (polynomials over name-free atoms, so the spelling does not
// matter):
//
//	#drop-count  drop is handed n − (cap − len(table)): the slots that are missing,
//	             not n (that evicts blocks although there is room) and not
//	             cap − len(table);
//	#answer      the result is cap − len(table) ≥ n with the table's length read
//	             after the eviction, not the count taken before it.
func ruleFreeCount(c *Ctx, r *Rep, tier string) {
	rule := "FREE-COUNT"
	n := 0
	for _, fn := range c.FuncsIn("bgzf/cache") {
		if fn.Name() != "free" || fn.Signature.Recv() == nil || len(fn.Params) != 2 || fn.Blocks == nil {
			continue
		}
		recv, want := fn.Params[0], fn.Params[1]
		var capF, tableF *types.Var
		if st, ok := recv.Type().(*types.Pointer).Elem().Underlying().(*types.Struct); ok {
			for i := 0; i < st.NumFields(); i++ {
				f := st.Field(i)
				if _, isMap := f.Type().Underlying().(*types.Map); isMap && tableF == nil {
					tableF = f
				}
				if b, ok := f.Type().Underlying().(*types.Basic); ok && b.Kind() == types.Int && capF == nil {
					capF = f
				}
			}
		}
		if capF == nil || tableF == nil {
			continue
		}
		n++
		// classify atoms: a load of recv.cap, len(load of recv.table), the parameter
		atom := func(v ssa.Value) string {
			v = stripConv(v)
			if v == ssa.Value(want) {
				return "n"
			}
			if f, base := loadedField(v); f == capF && origin(base) == ssa.Value(recv) {
				return "cap"
			}
			if a, ok := isLenCall(v); ok {
				if f, base := loadedField(a); f == tableF && origin(base) == ssa.Value(recv) {
					return "len"
				}
			}
			return ""
		}
		var lin func(v ssa.Value, sign int64, out map[string]int64) bool
		lin = func(v ssa.Value, sign int64, out map[string]int64) bool {
			v = stripConv(v)
			if a := atom(v); a != "" {
				out[a] += sign
				return true
			}
			if k, ok := constInt(v); ok {
				out[""] += sign * k
				return true
			}
			if bo, ok := v.(*ssa.BinOp); ok {
				switch bo.Op {
				case token.ADD:
					return lin(bo.X, sign, out) && lin(bo.Y, sign, out)
				case token.SUB:
					return lin(bo.X, sign, out) && lin(bo.Y, -sign, out)
				}
			}
			return false
		}
		is := func(m map[string]int64, nn, cp, ln int64) bool {
			return m["n"] == nn && m["cap"] == cp && m["len"] == ln && m[""] == 0
		}
		var drop *ssa.Call
		allInstrs(fn, func(ins ssa.Instruction) {
			if call, ok := ins.(*ssa.Call); ok {
				if g := staticCallee(&call.Call); g != nil && g.Name() == "drop" && len(call.Call.Args) == 2 {
					drop = call
				}
			}
		})
		r.Instance(rule, 2)
		k1 := c.FnName(fn) + "#drop-count"
		k2 := c.FnName(fn) + "#answer"
		if drop == nil {
			r.Fail(rule, k1, c.Pos(fn.Pos()), "no call of drop: undecided")
			r.Fail(rule, k2, c.Pos(fn.Pos()), "no call of drop: undecided")
			continue
		}
		m := map[string]int64{}
		why := ""
		if !lin(drop.Call.Args[1], 1, m) || !is(m, 1, -1, 1) {
			why = fmt.Sprintf("drop is handed %s, not n − (cap − len(table)): with n itself blocks are evicted although there is room for some of the n already; with the free slots the count is unrelated to what is asked for", symKey(drop.Call.Args[1]))
		}
		r.Check(why == "", rule, k1, c.Pos(drop.Pos()), "drop(n − (cap − len(table)))", why)

		why = ""
		okRet := 0
		for _, b := range fn.Blocks {
			ret, ok := b.Instrs[len(b.Instrs)-1].(*ssa.Return)
			if !ok || len(ret.Results) != 1 {
				continue
			}
			v := retValue(ret, 0)
			// a phi of answers: every edge is judged
			var judge func(v ssa.Value, at *ssa.BasicBlock) string
			// roomAt: block at is only reached with n ≤ cap − len(table)
			roomAt := func(at *ssa.BasicBlock) bool {
				for _, eb := range fn.Blocks {
					ifi := ifOf(eb)
					if ifi == nil {
						continue
					}
					bo, ok := ifi.Cond.(*ssa.BinOp)
					if !ok {
						continue
					}
					d := map[string]int64{}
					if !lin(bo.X, 1, d) || !lin(bo.Y, -1, d) {
						continue
					}
					// d = X − Y; room means n − cap + len ≤ 0
					pos := is(d, 1, -1, 1)  // X − Y = n − (cap − len)
					neg := is(d, -1, 1, -1) // X − Y = (cap − len) − n
					k := -1
					switch {
					case pos && (bo.Op == token.LEQ || bo.Op == token.LSS):
						k = 0
					case pos && (bo.Op == token.GTR):
						k = 1
					case neg && (bo.Op == token.GEQ || bo.Op == token.GTR):
						k = 0
					case neg && (bo.Op == token.LSS):
						k = 1
					}
					if k >= 0 && (dominatedByEdge(fn, eb, k, at) || eb.Succs[k] == at && len(at.Preds) == 1) {
						return true
					}
				}
				return false
			}
			judge = func(v ssa.Value, at *ssa.BasicBlock) string {
				switch x := v.(type) {
				case *ssa.Phi:
					for i, e := range x.Edges {
						if w := judge(e, x.Block().Preds[i]); w != "" {
							return w
						}
					}
					return ""
				case *ssa.UnOp:
					// results spilled to a local because of the deferred unlock: every value stored is an answer
					if al, ok := x.X.(*ssa.Alloc); ok && x.Op == token.MUL {
						for _, ref := range *al.Referrers() {
							if st, ok := ref.(*ssa.Store); ok && st.Addr == al {
								if w := judge(st.Val, st.Block()); w != "" {
									return w
								}
							}
						}
						return ""
					}
				case *ssa.Const:
					// a constant answer on an early path: true only where there is room
					if x.Value == nil || x.Value.String() != "true" {
						return "a constant false answer"
					}
					if !roomAt(at) {
						return "Free answers true on a path where n ≤ cap − len(table) has not been established"
					}
					return ""
				case *ssa.BinOp:
					d := map[string]int64{}
					var okL bool
					switch x.Op {
					case token.GEQ:
						okL = lin(x.X, 1, d) && lin(x.Y, -1, d)
					case token.LEQ:
						okL = lin(x.Y, 1, d) && lin(x.X, -1, d)
					default:
						return fmt.Sprintf("the answer is %s, not cap − len(table) ≥ n", symKey(v))
					}
					if !okL || !is(d, -1, 1, -1) {
						return fmt.Sprintf("the answer compares %s, not cap − len(table) with n", symKey(v))
					}
					// the table's length is read after the eviction
					stale := ""
					var walk func(y ssa.Value)
					walk = func(y ssa.Value) {
						y = stripConv(y)
						if bo, ok := y.(*ssa.BinOp); ok {
							walk(bo.X)
							walk(bo.Y)
							return
						}
						if atom(y) == "len" {
							if ins, ok := y.(ssa.Instruction); ok {
								if _, reach := pathTo(locOf(ins), func(z ssa.Instruction) bool { return z == ssa.Instruction(drop) }, nil, nil); reach {
									stale = "the length of the table in the answer is read before the eviction (" + c.Pos(ins.Pos()) + "): Free says false although it has just made the room"
								}
							}
						}
					}
					walk(x.X)
					walk(x.Y)
					okRet++
					return stale
				}
				return fmt.Sprintf("the answer %s is not understood", symKey(v))
			}
			if w := judge(v, b); w != "" {
				why = w
			}
		}
		if why == "" && okRet == 0 {
			why = "no return computes cap − len(table) ≥ n"
		}
		r.Check(why == "", rule, k2, c.Pos(fn.Pos()), "returns cap − len(table) ≥ n, read after the eviction", why)
	}
	if n < 3 {
		r.Instance(rule, 1)
		r.Fail(rule, "bgzf/cache#free-methods", "bgzf/cache/cache.go", fmt.Sprintf("only %d free methods found (3 confirmed by reading): the rule's anchor moved", n))
	}
}

// ---- CHUNK-PROGRESS ------------------------------------------------------------
//
// In Blocked mode a Read of the bgzf.Reader may return no byte and still have
// moved: a zero-length read is how the ChunkReader steps from a drained block
// into the next one when the chunk ends at offset 0 of a later block. Whether
// the current chunk is given up after a read is therefore a matter of where
// the reader is (LastChunk before and after, the chunk's End), never of how
// many bytes came back: a chunk abandoned because n == 0 loses every block
// between the drained one and its End (tenth-round seed C13-k).
//
// Decided as a must-pass-through over the dependency closure: every path from
// the underlying Read to the store that drops the chunk (chunks = chunks[1:])
// passes a branch whose condition depends on a LastChunk taken after the Read.
// (The byte count may appear among the conditions; it may not be the only
// thing that leads to the drop.)
func ruleChunkProgress(c *Ctx, r *Rep, tier string) {
	rule := "CHUNK-PROGRESS"
	fn := c.Func("bgzf/index", "(*ChunkReader).Read")
	chunksF := c.Field("bgzf/index", "ChunkReader", "chunks")
	bgRead := c.Func("bgzf", "(*Reader).Read")
	lastChunk := c.Func("bgzf", "(*Reader).LastChunk")
	r.Instance(rule, 1)
	key := "bgzf/index.(*ChunkReader).Read#progress-by-position"
	var read *ssa.Call
	allInstrs(fn, func(ins ssa.Instruction) {
		if call, ok := ins.(*ssa.Call); ok && staticCallee(&call.Call) == bgRead {
			read = call
		}
	})
	if read == nil {
		r.Fail(rule, key, c.Pos(fn.Pos()), "no call of (*bgzf.Reader).Read: undecided")
		return
	}
	var count ssa.Value
	for _, ref := range *read.Referrers() {
		if ex, ok := ref.(*ssa.Extract); ok && ex.Index == 0 {
			count = ex
		}
	}
	var dependsOn func(v, target ssa.Value, seen map[ssa.Value]bool) bool
	dependsOn = func(v, target ssa.Value, seen map[ssa.Value]bool) bool {
		if v == target {
			return true
		}
		if v == nil || seen[v] {
			return false
		}
		seen[v] = true
		ins, ok := v.(ssa.Instruction)
		if !ok {
			return false
		}
		if al, ok := v.(*ssa.Alloc); ok {
			// a local held in memory (a struct): what was stored into it, whole or by field
			for _, ref := range *al.Referrers() {
				switch x := ref.(type) {
				case *ssa.Store:
					if x.Addr == al && dependsOn(x.Val, target, seen) {
						return true
					}
				case *ssa.FieldAddr:
					for _, r2 := range *x.Referrers() {
						if st, ok := r2.(*ssa.Store); ok && st.Addr == x && dependsOn(st.Val, target, seen) {
							return true
						}
					}
				}
			}
		}
		for _, op := range ins.Operands(nil) {
			if *op != nil && dependsOn(*op, target, seen) {
				return true
			}
		}
		return false
	}
	// the drops after the read
	why := ""
	drops := 0
	var after []*ssa.Call
	allInstrs(fn, func(x ssa.Instruction) {
		if call, ok := x.(*ssa.Call); ok && staticCallee(&call.Call) == lastChunk && instrDominates(read, call) {
			after = append(after, call)
		}
	})
	positionalIf := func(x ssa.Instruction) bool {
		ifi, ok := x.(*ssa.If)
		if !ok {
			return false
		}
		for _, call := range after {
			if dependsOn(ifi.Cond, call, map[ssa.Value]bool{}) {
				return true
			}
		}
		return false
	}
	allInstrs(fn, func(ins ssa.Instruction) {
		st, ok := ins.(*ssa.Store)
		if !ok {
			return
		}
		fa, ok := st.Addr.(*ssa.FieldAddr)
		if !ok || fieldVarOfAddr(fa) != chunksF || !instrDominates(read, st) {
			return
		}
		drops++
		if _, ok := mustPass(locOf(read), is(st), positionalIf, nil); !ok {
			by := ""
			if count != nil {
				for _, b := range fn.Blocks {
					if ifi := ifOf(b); ifi != nil && instrDominates(read, ifi) && dependsOn(ifi.Cond, count, map[ssa.Value]bool{}) && blockReaches(b, st.Block()) && !positionalIf(ifi) {
						by = " (the branch at " + c.Pos(ifi.Pos()) + " looks at the number of bytes returned)"
					}
				}
			}
			why = fmt.Sprintf("the chunk can be given up (%s) after the read without any test of where the reader is now%s: a read that steps over the end of a drained block returns no byte and has moved – the chunk is dropped with the blocks between there and its End unread", c.Pos(st.Pos()), by)
		}
	})
	if drops == 0 {
		why = "no store that drops the current chunk after the read: undecided"
	}
	r.Check(why == "", rule, key, c.Pos(read.Pos()), "giving up the chunk after a read is decided from positions (LastChunk after the read against LastChunk before it, or the chunk's End)", why)
}

func blockReaches(from, to *ssa.BasicBlock) bool {
	seen := map[*ssa.BasicBlock]bool{from: true}
	work := []*ssa.BasicBlock{from}
	for len(work) > 0 {
		b := work[len(work)-1]
		work = work[:len(work)-1]
		if b == to {
			return true
		}
		for _, s := range b.Succs {
			if !seen[s] {
				seen[s] = true
				work = append(work, s)
			}
		}
	}
	return false
}

// ---- SHARED-STATE --------------------------------------------------------------
//
// What a Writer emits, and what a Reader returns, is a function of what that
// instance was given: the properties quantify over the calls made on one writer
// or reader, "whatever" else the process does. That holds structurally as long as
// the package keeps no state that one instance writes and another reads.
// Decided for every package-level variable that is referenced outside package
// initialisation:
//
//	– read-only: only loaded, and nothing is stored through what was loaded (no
//	  element or map update, no address handed out): error values, tables;
//	– an object pool (sync.Pool): the objects it carries from one instance to
//	  the next are reset on the way – every value taken out has a Reset call
//	  that dominates its other uses, or every value put in was Reset before;
//	– anything else is state shared between instances: reported.
//
// (Tenth-round seed C08-l recycled the compressors' buffers between Writers
// through a pool without resetting them: after a Writer whose destination failed,
// the next Writer's first member began with the lost block.)
func ruleSharedState(pkgs []string) func(c *Ctx, r *Rep, tier string) {
	return func(c *Ctx, r *Rep, tier string) {
		rule := "SHARED-STATE"
		for _, pk := range pkgs {
			sp := c.SSA[pk]
			if sp == nil {
				unresolved("package %q", pk)
			}
			fns := c.FuncsIn(pk)
			var names []string
			for n, m := range sp.Members {
				if _, ok := m.(*ssa.Global); ok && !strings.Contains(n, "$") {
					names = append(names, n)
				}
			}
			sort.Strings(names)
			for _, gn := range names {
				g := sp.Members[gn].(*ssa.Global)
				type use struct {
					fn  *ssa.Function
					ins ssa.Instruction
				}
				var uses []use
				for _, fn := range fns {
					if (fn.Name() == "init" || strings.HasPrefix(fn.Name(), "init#")) && fn.Parent() == nil {
						continue // package initialisation, declared init functions included
					}
					fn := fn
					allInstrs(fn, func(ins ssa.Instruction) {
						for _, op := range ins.Operands(nil) {
							if *op == ssa.Value(g) {
								uses = append(uses, use{fn, ins})
							}
						}
					})
				}
				if len(uses) == 0 {
					continue
				}
				r.Instance(rule, 1)
				key := pk + "." + gn + "#shared-state"
				elem := g.Type().(*types.Pointer).Elem()
				isPool := false
				if nt, ok := elem.(*types.Named); ok && nt.Obj().Pkg() != nil && nt.Obj().Pkg().Path() == "sync" && nt.Obj().Name() == "Pool" {
					isPool = true
				}
				why := ""
				var gets, puts []*ssa.Call
				for _, u := range uses {
					switch x := u.ins.(type) {
					case *ssa.UnOp:
						if x.Op != token.MUL {
							why = "its address is taken at " + c.Pos(x.Pos())
							break
						}
						// nothing is stored through the loaded value
						for _, ref := range *x.Referrers() {
							switch y := ref.(type) {
							case *ssa.MapUpdate:
								if y.Map == ssa.Value(x) {
									why = "the table is written at " + c.Pos(y.Pos()) + " by code that any instance runs"
								}
							case *ssa.IndexAddr:
								for _, r2 := range *y.Referrers() {
									if st, ok := r2.(*ssa.Store); ok && st.Addr == ssa.Value(y) {
										why = "an element is stored at " + c.Pos(st.Pos()) + " by code that any instance runs"
									}
								}
							case *ssa.Slice:
								// buf[:0] handed to append: the shared backing array is written
								for _, r2 := range *y.Referrers() {
									if cl, ok := r2.(*ssa.Call); ok {
										if bi, ok := cl.Call.Value.(*ssa.Builtin); ok && (bi.Name() == "append" || bi.Name() == "copy") && len(cl.Call.Args) > 0 && cl.Call.Args[0] == ssa.Value(y) {
											why = "its backing array is written through " + bi.Name() + " at " + c.Pos(cl.Pos()) + " by code that any caller runs: two results alive at once (a caller holding two, two goroutines) share it"
										}
									}
								}
							case *ssa.Call:
								if bi, ok := y.Call.Value.(*ssa.Builtin); ok && (bi.Name() == "append" || bi.Name() == "copy") && len(y.Call.Args) > 0 && y.Call.Args[0] == ssa.Value(x) {
									if _, isSl := x.Type().Underlying().(*types.Slice); isSl && bi.Name() == "copy" {
										why = "its backing array is written through copy at " + c.Pos(y.Pos())
									}
								}
							}
						}
					case *ssa.Call:
						callee := calleeFullName(&x.Call)
						switch {
						case isPool && callee == "(*sync.Pool).Get":
							gets = append(gets, x)
						case isPool && callee == "(*sync.Pool).Put":
							puts = append(puts, x)
						default:
							why = "its address is handed to " + callee + " at " + c.Pos(x.Pos())
						}
					case *ssa.Store:
						why = "it is assigned at " + c.Pos(x.Pos()) + " outside package initialisation"
					case *ssa.FieldAddr, *ssa.IndexAddr:
						// an element or field of the variable: read-only if the address is only loaded from
						for _, ref := range *u.ins.(ssa.Value).Referrers() {
							if ld, ok := ref.(*ssa.UnOp); ok && ld.Op == token.MUL {
								continue
							}
							why = "a part of it is addressed at " + c.Pos(u.ins.Pos()) + " and the address is used for more than a load (it can be written there)"
						}
					default:
						why = fmt.Sprintf("used by %T at %s: not understood", u.ins, c.Pos(u.ins.Pos()))
					}
				}
				if why != "" {
					why = "package-level variable shared by every instance: " + why + " – what one Writer or Reader does can change what another emits or returns"
				}
				if why == "" && isPool {
					// reset on the way out, or on the way in
					resetOn := func(v ssa.Value, before ssa.Instruction) *ssa.Call {
						var found *ssa.Call
						if v.Referrers() == nil {
							return nil
						}
						for _, ref := range *v.Referrers() {
							if cl, ok := ref.(*ssa.Call); ok && len(cl.Call.Args) > 0 && cl.Call.Args[0] == v {
								if f := staticCallee(&cl.Call); f != nil && f.Name() == "Reset" {
									if before == nil || instrDominates(cl, before) {
										found = cl
									}
								}
							}
						}
						return found
					}
					getsClean := len(gets) > 0
					for _, gcall := range gets {
						// the object: the asserted view of the result
						obj := ssa.Value(gcall)
						for _, ref := range *gcall.Referrers() {
							if ta, ok := ref.(*ssa.TypeAssert); ok {
								obj = ta
								if ta.CommaOk {
									for _, r2 := range *ta.Referrers() {
										if ex, ok := r2.(*ssa.Extract); ok && ex.Index == 0 {
											obj = ex
										}
									}
								}
							}
						}
						rs := resetOn(obj, nil)
						if rs == nil {
							getsClean = false
							continue
						}
						for _, ref := range *obj.Referrers() {
							if ref != ssa.Instruction(rs) && !instrDominates(rs, ref) {
								getsClean = false
							}
						}
					}
					putsClean := len(puts) > 0
					for _, pcall := range puts {
						arg := pcall.Call.Args[1]
						if mi, ok := arg.(*ssa.MakeInterface); ok {
							arg = mi.X
						}
						if resetOn(arg, pcall) == nil {
							// the same place read twice: x.buf.Reset(); pool.Put(x.buf)
							same := false
							allInstrs(pcall.Parent(), func(y ssa.Instruction) {
								cl, ok := y.(*ssa.Call)
								if !ok || len(cl.Call.Args) == 0 || !instrDominates(cl, pcall) {
									return
								}
								if f := staticCallee(&cl.Call); f == nil || f.Name() != "Reset" {
									return
								}
								if _, isLoad := arg.(*ssa.UnOp); isLoad && symKey(cl.Call.Args[0]) == symKey(arg) {
									same = true
								}
							})
							if !same {
								putsClean = false
							}
						}
					}
					// nothing made from a pooled object leaves with the caller: the object goes
					// back to the pool (a deferred Put) and the next user writes over it
					for _, gcall := range gets {
						obj := ssa.Value(gcall)
						for _, ref := range *gcall.Referrers() {
							if ta, ok := ref.(*ssa.TypeAssert); ok {
								obj = ta
							}
						}
						if obj.Referrers() == nil {
							continue
						}
						for _, ref := range *obj.Referrers() {
							cl, ok := ref.(*ssa.Call)
							if !ok || len(cl.Call.Args) == 0 || cl.Call.Args[0] != obj {
								continue
							}
							switch cl.Type().Underlying().(type) {
							case *types.Slice, *types.Pointer, *types.Map:
							default:
								continue
							}
							for _, r2 := range *cl.Referrers() {
								if rt, ok := r2.(*ssa.Return); ok {
									why = fmt.Sprintf("what %s returns at %s is backed by an object of the pool (%s of it): the object is handed back and the next call writes over what this caller still holds", c.FnName(cl.Parent()), c.Pos(rt.Pos()), calleeFullName(&cl.Call))
								}
							}
						}
					}
					if why == "" && !getsClean && !putsClean {
						why = fmt.Sprintf("objects of the pool go from one instance to the next as they were left (%d Get, %d Put; no Reset that dominates the uses of what is taken out, none before what is put in): whatever an instance left in them – the block a failed destination did not take – is the next instance's", len(gets), len(puts))
					}
				}
				r.Check(why == "", rule, key, c.Pos(g.Pos()), "read-only, or a pool whose objects are reset between instances", why)
			}
		}
	}
}

// ---- KEEP-OTHER-BASE -----------------------------------------------------------
//
// nextBlock's synchronous fall-back reads the wanted member with nextBlockAt,
// which first steps over every block the cache holds. That is right only
// because the cache cannot hold the wanted one: cacheSwap has just missed, and
// whatever nextBlock itself has put into the cache since – the read-ahead results
// it passed over – has another base. A result for the wanted base that is kept
// (a stale one, say, treated as a mismatch) sends the fall-back past it, and past
// every cached block behind it: Read returns a later block's bytes, silently
// (tenth-round seed C03-l).
//
// Decided by path enumeration from the receive on working (nil facts about the
// error are carried along, so "err != nil && stale … if err == nil" is seen to
// be infeasible): every path that reaches the call of keep has passed the
// not-equal edge of the comparison of the result's base with the wanted one.
func ruleKeepOtherBase(c *Ctx, r *Rep, tier string) {
	rule := "KEEP-OTHER-BASE"
	fn := c.Func("bgzf", "(*Reader).nextBlock")
	keep := c.Func("bgzf", "(*Reader).keep")
	fCur := c.Field("bgzf", "Reader", "current")
	fWork := c.Field("bgzf", "Reader", "working")
	key := "bgzf.(*Reader).nextBlock#kept-other-base"
	r.Instance(rule, 1)
	var recv ssa.Instruction
	var keeps []ssa.Instruction
	allInstrs(fn, func(ins ssa.Instruction) {
		if u, ok := ins.(*ssa.UnOp); ok && u.Op == token.ARROW {
			if f, _ := loadedField(u.X); f == fWork {
				recv = ins
			}
		}
		if call, ok := ins.(*ssa.Call); ok && staticCallee(&call.Call) == keep {
			keeps = append(keeps, ins)
		}
	})
	if recv == nil {
		r.Fail(rule, key, c.Pos(fn.Pos()), "no receive on working found: undecided")
		return
	}
	if len(keeps) == 0 {
		r.Pass(rule, key, c.Pos(recv.Pos()), "nextBlock puts nothing into the cache after the receive")
		return
	}
	isKeep := func(ins ssa.Instruction) bool {
		for _, k := range keeps {
			if k == ins {
				return true
			}
		}
		return false
	}
	w := NewWalker(c)
	w.Inline = 0
	w.Stop = func(ins ssa.Instruction) bool { return ins == recv || isKeep(ins) }
	w.Edge = func(from *ssa.BasicBlock, succ int) (string, bool) {
		i := ifOf(from)
		if i == nil || from.Succs[0] == from.Succs[1] {
			return "", false
		}
		bo, ok := i.Cond.(*ssa.BinOp)
		if !ok || (bo.Op != token.EQL && bo.Op != token.NEQ) {
			return "", false
		}
		if !isResultBase(c, insOf(bo.X), fCur) && !isResultBase(c, insOf(bo.Y), fCur) {
			return "", false
		}
		ne := 0 // the successor on which the bases differ
		if bo.Op == token.EQL {
			ne = 1
		}
		if succ == ne {
			return "mismatch", true
		}
		return "", false
	}
	var bad ssa.Instruction
	n := 0
	for _, e := range w.Walk(fn, locOf(recv)) {
		if e.At != nil && isKeep(e.At) {
			n++
			if e.Counts["mismatch"] == 0 {
				bad = e.At
			}
		}
	}
	switch {
	case w.overflow:
		r.Fail(rule, key, c.Pos(fn.Pos()), "path budget exhausted: undecided")
	case bad != nil:
		r.Fail(rule, key, c.Pos(bad.Pos()), "a read-ahead result can be put into the cache without its base having been found different from the wanted one: the synchronous read that follows steps over cached blocks, so with the wanted block cached it decodes a later member and Read returns that member's bytes for this position")
	case n == 0:
		r.Fail(rule, key, c.Pos(recv.Pos()), "no path from the receive reaches keep: undecided")
	default:
		r.Pass(rule, key, c.Pos(recv.Pos()), fmt.Sprintf("all %d paths from the receive to keep pass the not-equal edge of the base comparison", n))
	}
}

// ---- ASSERT-CHECKED ------------------------------------------------------------
//
// x.(T) without the comma-ok form panics when the dynamic type is another one.
// In decoder code the dynamic type of an interface value is, as a rule, decided
// by the input (the type byte of an aux field decides what Aux.Value returns).
// Every such assertion in the library is either shown safe structurally – it
// sits on the edge of a type switch/comma-ok test of the same value for the same
// type, or its operand was made from a value of that type in the same function –
// or is in the table below, reviewed by reading, with the reason. A new one
// (eleventh-round seed C11-l: cg.Value().([]uint32) on a CG field of any type) is
// reported.
var assertTable = map[string]string{
	"sam.NewAux#[]int8":                        "contract: behind reflect's element kind Int8; the one decoder that calls NewAux (ParseAux) passes slices it made itself with make([]int8, n). An array or a named slice type of int8 from an API caller does panic here (second hunt, DESIGN 5.1, not counted: NewAux is a constructor for the caller's own values, not a decoder)",
	"sam.NewAux#[]uint8":                       "contract: as for []int8 – ParseAux passes make([]uint8, n)",
	"bam.(*Merger).pop#*bam.reader":            "internal: the heap holds only what push put in, and push takes a *reader",
	"bam.(*bySortOrderAndID).Push#*bam.reader": "internal: called by container/heap with the argument of heap.Push, which only (*Merger).push calls, with a *reader",
}

func ruleAssertChecked(c *Ctx, r *Rep, tier string) {
	rule := "ASSERT-CHECKED"
	for _, fn := range boundsScope(c) {
		fn := fn
		k := map[string]int{}
		allInstrs(fn, func(ins ssa.Instruction) {
			ta, ok := ins.(*ssa.TypeAssert)
			if !ok || ta.CommaOk {
				return
			}
			if ins.Pos() == token.NoPos {
				return
			}
			r.Instance(rule, 1)
			ts := types.TypeString(ta.AssertedType, func(p *types.Package) string { return p.Name() })
			k[ts]++
			key := fmt.Sprintf("%s#assert:%s~%d", c.FnName(fn), ts, k[ts])
			// an interface-to-interface assertion to a wider interface can fail too; only
			// an operand built from a value of exactly that type is safe by construction
			if mi, ok := ta.X.(*ssa.MakeInterface); ok && types.Identical(mi.X.Type(), ta.AssertedType) {
				r.Pass(rule, key, c.Pos(ins.Pos()), "the operand was made from a value of the asserted type")
				return
			}
			// dominated by the ok edge of a comma-ok assertion of the same operand to the same type
			for _, b := range fn.Blocks {
				ifi := ifOf(b)
				if ifi == nil {
					continue
				}
				ex, ok := ifi.Cond.(*ssa.Extract)
				if !ok || ex.Index != 1 {
					continue
				}
				if t2, ok := ex.Tuple.(*ssa.TypeAssert); ok && t2.CommaOk && t2.X == ta.X && types.Identical(t2.AssertedType, ta.AssertedType) && dominatedByEdge(fn, b, 0, ta.Block()) {
					r.Pass(rule, key, c.Pos(ins.Pos()), "behind a comma-ok test of the same value for the same type")
					return
				}
			}
			tk := c.FnName(fn) + "#" + ts
			if why, ok := assertTable[tk]; ok {
				r.Pass(rule, key, c.Pos(ins.Pos()), why)
				return
			}
			r.Fail(rule, key, c.Pos(ins.Pos()), "type assertion without the comma-ok form on a value whose dynamic type is not shown to be "+ts+": a decoder that reaches it with another type – which type an aux field holds is the input's choice – panics instead of returning an error")
		})
	}
}

// ---- CSV-FIELDS ----------------------------------------------------------------
//
// IDX-CONST trusts the fixed-column indexing of fai.ReadFrom on a premise:
// "FieldsPerRecord = 5 makes every record have five fields". The premise is
// checked here: the FieldsPerRecord field of the csv.Reader that ReadFrom reads
// from is assigned a positive constant before the first Read, nowhere else, and
// every constant index into a record is below it. (With 0 the field count is
// taken from the first record: "chr1\t100\n" then indexes past the slice, and
// the deferred recover re-panics what is not a parse error – eleventh-round seed
// C11-k.)
func ruleCSVFields(c *Ctx, r *Rep, tier string) {
	rule := "CSV-FIELDS"
	fn := c.Func("fai", "ReadFrom")
	key := "fai.ReadFrom#fields-per-record"
	r.Instance(rule, 1)
	var read *ssa.Call
	var stores []*ssa.Store
	maxIdx := int64(-1)
	allInstrs(fn, func(ins ssa.Instruction) {
		switch x := ins.(type) {
		case *ssa.Call:
			if calleeFullName(&x.Call) == "(*encoding/csv.Reader).Read" && read == nil {
				read = x
			}
		case *ssa.Store:
			if fa, ok := x.Addr.(*ssa.FieldAddr); ok {
				if fv := fieldVarOfAddr(fa); fv != nil && fv.Name() == "FieldsPerRecord" && fv.Pkg() != nil && fv.Pkg().Path() == "encoding/csv" {
					stores = append(stores, x)
				}
			}
		}
	})
	if read == nil {
		r.Fail(rule, key, c.Pos(fn.Pos()), "no (*csv.Reader).Read call: undecided")
		return
	}
	// constant indices into the record (result 0 of Read)
	var rec ssa.Value
	for _, ref := range *read.Referrers() {
		if ex, ok := ref.(*ssa.Extract); ok && ex.Index == 0 {
			rec = ex
		}
	}
	for _, f := range withAnon(fn) {
		allInstrs(f, func(ins ssa.Instruction) {
			ia, ok := ins.(*ssa.IndexAddr)
			if !ok {
				return
			}
			if _, isSl := ia.X.Type().Underlying().(*types.Slice); !isSl {
				return
			}
			if el, ok := ia.X.Type().Underlying().(*types.Slice).Elem().Underlying().(*types.Basic); !ok || el.Kind() != types.String {
				return
			}
			if k, ok := constInt(ia.Index); ok && k > maxIdx {
				maxIdx = k
			}
		})
	}
	why := ""
	switch {
	case len(stores) != 1:
		why = fmt.Sprintf("FieldsPerRecord is assigned at %d places (want exactly one, before the first Read)", len(stores))
	case rec == nil || maxIdx < 0:
		why = "the record or its constant indices were not found: undecided"
	default:
		k, ok := constInt(stores[0].Val)
		switch {
		case !ok:
			why = "FieldsPerRecord is not a constant"
		case k <= maxIdx:
			why = fmt.Sprintf("FieldsPerRecord = %d but a record is indexed at %d: with 0 encoding/csv takes the count from the first record, with a negative value it does not check at all – a short line indexes past the record, and ReadFrom's recover re-panics everything that is not a parse error", k, maxIdx)
		case !instrDominates(stores[0], read):
			why = "FieldsPerRecord is assigned after a Read can have happened"
		}
	}
	r.Check(why == "", rule, key, c.Pos(read.Pos()), fmt.Sprintf("FieldsPerRecord is a constant above the largest constant index (%d) and is set before the first Read", maxIdx), why)
}

// ---- LINEAR-KEEP ---------------------------------------------------------------
//
// The linear index maps a 16 KiB tile to the offset of the first record that
// overlaps it. Records are added in position order, so a tile's entry, once
// recorded, belongs to an earlier record than any later Add can bring: Add may
// extend the list, never rewrite or drop what is in it. (Eleventh-round seed
// C04-k grew the list with append after re-slicing it to the record's first
// tile: the tiles the record shares with its predecessors got the later offset,
// and a query that starts in one of them no longer finds the earlier record.)
//
// Decided in internal.(*Index).Add on the shape of every write to
// Reference.Intervals:
//
//	#no-truncation   no re-slice of the list with an upper bound flows back into
//	                 the field;
//	#no-overwrite    no element of the list as held is stored to in place;
//	#extends~k       where a new, longer list is built: the old one is copied to
//	                 its front before it is installed, and every element store
//	                 uses an index whose first value is the larger of the
//	                 record's first tile and the old length.
func ruleLinearKeep(c *Ctx, r *Rep, tier string) {
	// Add extends; sort only permutes (sort.Sort over the list: zero entries – tiles
	// no record reached – move to the front and every recorded offset to a tile at
	// or after its own, which keeps each entry a lower bound). A sort that assigns
	// entries itself – thirteenth-round seed C04-n filled "empty" tiles from their
	// right-hand neighbour, and took a first record at virtual offset 0, a
	// header-less tabix file, for an empty tile – is reported like an Add that does.
	linearKeepIn(c, r, c.Func("internal", "(*Index).Add"))
	linearKeepIn(c, r, c.Func("internal", "(*Index).sort"))
}

func linearKeepIn(c *Ctx, r *Rep, fn *ssa.Function) {
	rule := "LINEAR-KEEP"
	ivF := c.Field("internal", "RefIndex", "Intervals")
	name := c.FnName(fn)
	isIvLoad := func(v ssa.Value) bool {
		f, _ := loadedField(v)
		return f == ivF
	}
	// derivedFromHeld: v is the held list or a re-slice of it
	var fromHeld func(v ssa.Value, depth int) (held bool, truncated ssa.Instruction)
	fromHeld = func(v ssa.Value, depth int) (bool, ssa.Instruction) {
		if depth > 8 {
			return false, nil
		}
		if isIvLoad(v) {
			return true, nil
		}
		switch x := v.(type) {
		case *ssa.Slice:
			h, t := fromHeld(x.X, depth+1)
			if h && x.High != nil && t == nil {
				t = x
			}
			return h, t
		case *ssa.Phi:
			for _, e := range x.Edges {
				if h, t := fromHeld(e, depth+1); h {
					return true, t
				}
			}
		case *ssa.Call:
			if bi, ok := x.Call.Value.(*ssa.Builtin); ok && bi.Name() == "append" && len(x.Call.Args) > 0 {
				return fromHeld(x.Call.Args[0], depth+1)
			}
		}
		return false, nil
	}
	var fieldStores []*ssa.Store
	allInstrs(fn, func(ins ssa.Instruction) {
		if st, ok := ins.(*ssa.Store); ok {
			if fa, ok := st.Addr.(*ssa.FieldAddr); ok && fieldVarOfAddr(fa) == ivF {
				fieldStores = append(fieldStores, st)
			}
		}
	})
	r.Instance(rule, 2)
	why := ""
	for _, st := range fieldStores {
		if h, t := fromHeld(st.Val, 0); h && t != nil {
			why = "the list is re-sliced with an upper bound (" + c.Pos(t.Pos()) + ") and stored back: entries recorded for earlier records are dropped, and what is appended in their place carries the later record's offset"
		}
	}
	r.Check(why == "", rule, name+"#no-truncation", c.Pos(fn.Pos()), "the list is never cut back", why)
	why = ""
	allInstrs(fn, func(ins ssa.Instruction) {
		st, ok := ins.(*ssa.Store)
		if !ok {
			return
		}
		ia, ok := st.Addr.(*ssa.IndexAddr)
		if !ok {
			return
		}
		if h, _ := fromHeld(ia.X, 0); h {
			why = "an element of the list as held is assigned at " + c.Pos(st.Pos()) + ": the tile keeps the offset of the first record that reached it"
		}
	})
	r.Check(why == "", rule, name+"#no-overwrite", c.Pos(fn.Pos()), "no entry is assigned in place", why)

	// new lists
	k := 0
	for _, fs := range fieldStores {
		mk, ok := fs.Val.(*ssa.MakeSlice)
		if !ok {
			continue
		}
		k++
		r.Instance(rule, 1)
		key := fmt.Sprintf("%s#extends~%d", name, k)
		why := ""
		copied := false
		allInstrs(fn, func(ins ssa.Instruction) {
			if cc, ok := isBuiltinCall(ins, "copy"); ok && cc.Args[0] == ssa.Value(mk) && isIvLoad(cc.Args[1]) && instrDominates(ins, fs) {
				copied = true
			}
		})
		if !copied {
			why = "the new list is installed without the old one having been copied to its front"
		}
		allInstrs(fn, func(ins ssa.Instruction) {
			st, ok := ins.(*ssa.Store)
			if !ok {
				return
			}
			ia, ok := st.Addr.(*ssa.IndexAddr)
			if !ok || ia.X != ssa.Value(mk) {
				return
			}
			// the index: a loop variable whose first value is max(first tile, old length)
			first := ia.Index
			if p, ok := first.(*ssa.Phi); ok && len(p.Edges) == 2 {
				for i, e := range p.Edges {
					if !dependsOnValue(e, p) {
						first = e
						_ = i
					}
				}
			}
			if !isMaxWithLen(fn, first, isIvLoad) {
				why = "an element of the new list is assigned at " + c.Pos(st.Pos()) + " from an index that is not shown to start at or above the old length: tiles already recorded get this record's offset"
			}
		})
		r.Check(why == "", rule, key, c.Pos(fs.Pos()), "old entries copied, new ones written from max(first tile, old length) on", why)
	}
}

func dependsOnValue(v, target ssa.Value) bool {
	seen := map[ssa.Value]bool{}
	var walk func(v ssa.Value) bool
	walk = func(v ssa.Value) bool {
		if v == target {
			return true
		}
		if v == nil || seen[v] {
			return false
		}
		seen[v] = true
		ins, ok := v.(ssa.Instruction)
		if !ok {
			return false
		}
		for _, op := range ins.Operands(nil) {
			if *op != nil && walk(*op) {
				return true
			}
		}
		return false
	}
	return walk(v)
}

// isMaxWithLen: v is max(x, len(L)) for a held list L – the builtin, or the φ of
// `if len(L) > x { x = len(L) }` (any spelling of the comparison), or len(L)
// itself.
func isMaxWithLen(fn *ssa.Function, v ssa.Value, isList func(ssa.Value) bool) bool {
	isLen := func(x ssa.Value) bool {
		a, ok := isLenCall(stripConv(x))
		return ok && isList(a)
	}
	if isLen(v) {
		return true
	}
	if call, ok := v.(*ssa.Call); ok {
		if bi, ok := call.Call.Value.(*ssa.Builtin); ok && bi.Name() == "max" {
			for _, a := range call.Call.Args {
				if isLen(a) {
					return true
				}
			}
		}
	}
	p, ok := v.(*ssa.Phi)
	if !ok || len(p.Edges) != 2 {
		return false
	}
	li := -1
	for i, e := range p.Edges {
		if isLen(e) {
			li = i
		}
	}
	if li < 0 {
		return false
	}
	other := p.Edges[1-li]
	// the edge that carries len(L) is taken where len(L) > other (or ≥), the other where not
	for _, b := range fn.Blocks {
		ifi := ifOf(b)
		if ifi == nil {
			continue
		}
		bo, ok := ifi.Cond.(*ssa.BinOp)
		if !ok {
			continue
		}
		var lenGreaterEdge int
		switch {
		case isLen(bo.X) && stripConv(bo.Y) == stripConv(other) && (bo.Op == token.GTR || bo.Op == token.GEQ):
			lenGreaterEdge = 0
		case isLen(bo.X) && stripConv(bo.Y) == stripConv(other) && (bo.Op == token.LSS || bo.Op == token.LEQ):
			lenGreaterEdge = 1
		case isLen(bo.Y) && stripConv(bo.X) == stripConv(other) && (bo.Op == token.LSS || bo.Op == token.LEQ):
			lenGreaterEdge = 0
		case isLen(bo.Y) && stripConv(bo.X) == stripConv(other) && (bo.Op == token.GTR || bo.Op == token.GEQ):
			lenGreaterEdge = 1
		default:
			continue
		}
		// the φ's len edge comes from the side of the branch where len is the greater
		pred := p.Block().Preds[li]
		if pred == b.Succs[lenGreaterEdge] || dominatedByEdge(fn, b, lenGreaterEdge, pred) {
			if pred != b.Succs[1-lenGreaterEdge] || b.Succs[0] != b.Succs[1] {
				return true
			}
		}
	}
	return false
}

// ---- SCAN-LIMIT ----------------------------------------------------------------
//
// A bufio.Scanner gives up on a token of 64 KiB ("token too long") unless it is
// given a larger limit. A parser of the library that reads lines with one
// refuses input that is well formed – a FASTA sequence written on one line
// (fai.NewIndex, the unchanged tree; repaired), a header with a long @PG CL or
// @CO line (eleventh-round seed C07-l: UnmarshalText rewritten over a Scanner).
// Decided for every bufio.NewScanner in library code: a call of its Buffer
// method, with a limit that is not a small constant, dominates every Scan.
func ruleScanLimit(pkgs []string) func(c *Ctx, r *Rep, tier string) {
	return func(c *Ctx, r *Rep, tier string) {
		rule := "SCAN-LIMIT"
		for _, pk := range pkgs {
			for _, fn := range c.FuncsIn(pk) {
				fn := fn
				k := 0
				allInstrs(fn, func(ins ssa.Instruction) {
					mk, ok := ins.(*ssa.Call)
					if !ok || calleeFullName(&mk.Call) != "bufio.NewScanner" {
						return
					}
					k++
					r.Instance(rule, 1)
					key := fmt.Sprintf("%s#scanner~%d", c.FnName(fn), k)
					var buffers, scans []*ssa.Call
					for _, f := range withAnon(rootFn(fn)) {
						allInstrs(f, func(x ssa.Instruction) {
							cl, ok := x.(*ssa.Call)
							if !ok || len(cl.Call.Args) == 0 {
								return
							}
							recv := cl.Call.Args[0]
							if recv != ssa.Value(mk) {
								// captured by a literal, or held in a local cell
								if u, ok := recv.(*ssa.UnOp); !ok || origin(u) != ssa.Value(mk) {
									return
								}
							}
							switch calleeFullName(&cl.Call) {
							case "(*bufio.Scanner).Buffer":
								buffers = append(buffers, cl)
							case "(*bufio.Scanner).Scan":
								scans = append(scans, cl)
							}
						})
					}
					why := ""
					switch {
					case len(buffers) == 0:
						why = "the scanner keeps its default limit: a line (token) of 64 KiB or more ends the scan with \"token too long\" – input that is well formed is refused"
					default:
						b := buffers[0]
						if lim, ok := constInt(b.Call.Args[2]); ok && lim < 1<<30 {
							why = fmt.Sprintf("the scanner's limit is the constant %d: longer lines are refused", lim)
						}
						for _, s := range scans {
							if s.Parent() == b.Parent() && !instrDominates(b, s) {
								why = "Scan can run before the limit is raised"
							}
						}
					}
					r.Check(why == "", rule, key, c.Pos(mk.Pos()), "the limit is raised before the first Scan", why)
				})
			}
		}
	}
}

// ---- CIGAR-EVERY-OP ------------------------------------------------------------
//
// Every operation of the text comes out as at least one operation of the value,
// a zero-length one included ("5M0I5M" is SAM text the library's own writer
// produces for a record that holds such an operation; BAM keeps it). Decided in
// sam.ParseCigar as a must-pass-through: from every call that parses a length
// (its result flows into the length argument of NewCigarOp) every path to the
// next such call, or to a return without error, passes a NewCigarOp. A splitting
// loop written `for n > 0` emits nothing for length 0 (eleventh-round seed
// C06-l, which CIGAR-SPLIT could only report as "the loop I read is gone").
func ruleCigarEveryOp(c *Ctx, r *Rep, tier string) {
	rule := "CIGAR-EVERY-OP"
	fn := c.Func("sam", "ParseCigar")
	isEmit := func(ins ssa.Instruction) bool {
		call, ok := ins.(*ssa.Call)
		if !ok {
			return false
		}
		g := staticCallee(&call.Call)
		return g != nil && g.Name() == "NewCigarOp"
	}
	lenFlow := map[ssa.Value]bool{}
	var back func(v ssa.Value, depth int)
	back = func(v ssa.Value, depth int) {
		if v == nil || lenFlow[v] || depth > 12 {
			return
		}
		lenFlow[v] = true
		switch x := v.(type) {
		case *ssa.Phi:
			for _, e := range x.Edges {
				back(e, depth+1)
			}
		case *ssa.Convert:
			back(x.X, depth+1)
		case *ssa.BinOp:
			if x.Op == token.SUB || x.Op == token.ADD {
				back(x.X, depth+1)
			}
		case *ssa.Extract:
			back(x.Tuple, depth+1)
		case *ssa.Call:
			if isEmit(x) {
				return
			}
			for _, a := range x.Call.Args {
				if _, isK := a.(*ssa.Const); !isK && len(x.Call.Args) == 2 {
					back(a, depth+1)
				}
			}
		}
	}
	allInstrs(fn, func(ins ssa.Instruction) {
		if isEmit(ins) {
			back(ins.(*ssa.Call).Call.Args[1], 0)
		}
	})
	isParse := func(ins ssa.Instruction) bool {
		call, ok := ins.(*ssa.Call)
		return ok && lenFlow[call] && !isEmit(ins) && len(call.Call.Args) == 1
	}
	k := 0
	allInstrs(fn, func(ins ssa.Instruction) {
		if !isParse(ins) {
			return
		}
		k++
		r.Instance(rule, 1)
		key := fmt.Sprintf("sam.ParseCigar#emitted~%d", k)
		target := func(x ssa.Instruction) bool {
			if isParse(x) {
				return true
			}
			ret, ok := x.(*ssa.Return)
			return ok && len(ret.Results) == 2 && isNilConst(retValue(ret, 1))
		}
		at, ok := mustPass(locOf(ins), target, isEmit, nil)
		why := ""
		if !ok {
			why = "after a length has been parsed the next operation can be reached, or the value returned, without an operation having been made for it"
			if at != nil {
				why += " (" + c.Pos(at.Pos()) + ")"
			}
			why += ": an operation of length 0 – valid text, kept by BAM – disappears from the value, and the record formats to another line"
		}
		r.Check(why == "", rule, key, c.Pos(ins.Pos()), "every parsed operation is emitted at least once", why)
	})
	if k == 0 {
		r.Instance(rule, 1)
		r.Fail(rule, "sam.ParseCigar#length-parse", c.Pos(fn.Pos()), "no call whose result becomes an operation's length: undecided")
	}
}

// ---- DEPTH-GUARD ---------------------------------------------------------------
//
// A CSI index numbers its bins in 32 bits: with more than nine levels below the
// root the level offsets of reg2bin wrap while reg2bins counts on, and a record
// is filed under a bin no query enumerates (csi.New(1, 11), Add [100,101),
// Chunks(0, 100, 101): nothing; depth 10 writes a statistics bin number that is
// a real bin's). ReadFrom refuses such a depth (SHIFT-FITS); New has no way to.
// Records enter an index through Add only, so: every call of the bin function in
// csi.(*Index).Add is behind a test of the index's depth against a constant,
// on the side where the depth is at most that constant, and the constant is at
// most the largest depth whose numbers fit (31/3 − 1 = 9).
func ruleDepthGuard(c *Ctx, r *Rep, tier string) {
	rule := "DEPTH-GUARD"
	fn := c.Func("csi", "(*Index).Add")
	depthF := c.Field("csi", "Index", "depth")
	binFn := c.Func("csi", "reg2bin")
	k := 0
	allInstrs(fn, func(ins ssa.Instruction) {
		call, ok := ins.(*ssa.Call)
		if !ok || staticCallee(&call.Call) != binFn {
			return
		}
		k++
		r.Instance(rule, 1)
		key := fmt.Sprintf("csi.(*Index).Add#depth-bounded~%d", k)
		okb := false
		for _, b := range fn.Blocks {
			ifi := ifOf(b)
			if ifi == nil {
				continue
			}
			bo, ok := ifi.Cond.(*ssa.BinOp)
			if !ok {
				continue
			}
			f, _ := loadedField(stripConv(bo.X))
			lim, isK := constInt(bo.Y)
			if f != depthF || !isK {
				continue
			}
			// the edge on which depth ≤ 9
			small := -1
			switch {
			case bo.Op == token.GTR && lim <= 9:
				small = 1
			case bo.Op == token.GEQ && lim <= 10:
				small = 1
			case bo.Op == token.LEQ && lim <= 9:
				small = 0
			case bo.Op == token.LSS && lim <= 10:
				small = 0
			}
			if small >= 0 && dominatedByEdge(fn, b, small, call.Block()) {
				okb = true
			}
		}
		r.Check(okb, rule, key, c.Pos(call.Pos()), "behind a test that the depth is at most 9", "the bin of a record is computed without the index's depth having been found at most 9: csi.New takes any depth, and with ten levels or more the 32-bit bin arithmetic wraps – the record is filed where no query looks (New(1, 11), Add [100,101), Chunks(0,100,101) returns nothing) and a written index is one its own reader refuses")
	})
	if k == 0 {
		r.Instance(rule, 1)
		r.Fail(rule, "csi.(*Index).Add#bin-call", c.Pos(fn.Pos()), "no call of reg2bin in Add: the rule's anchor moved (undecided)")
	}
}

// ---- BLOCK-HOLDERS -------------------------------------------------------------
//
// OWN-1/OWN-2/OWN-3 decide that a Block has one owner at a time – the Reader
// (Reader.current), a decompressor (decompressor.blk) or a cache (its table) –
// by following every hand-over between those holders. They say nothing about a
// holder they do not know. This rule closes the list: in bgzf and bgzf/cache a
// value of type Block (or *block) is stored only into the fields of the table
// below, put only into the maps of the table, and never sent on a channel or
// put into a slice. A new holder (twelfth-round seed C03-m kept "spare" blocks
// on a channel of the Reader, where a block could sit while it was still the
// current one) is reported as outside the ownership model: undecided, which
// counts as failed.
var blockHolders = map[string]string{
	"bgzf.Reader.current":       "the Reader's block (OWN-1)",
	"bgzf.decompressor.blk":     "the block a decompressor fills; handed over by wait()/using() (OWN-1, POOL-BARE)",
	"cache.node.b":              "LRU/FIFO entries (OWN-2, KEY-BASE)",
	"cache.Random.table":        "Random's entries (OWN-2, KEY-BASE)",
	"cache.LRU.table":           "LRU's index of nodes (holds nodes, listed for the map update)",
	"cache.FIFO.table":          "FIFO's index of nodes",
	"bgzf.Tx.r":                 "not a block: a Reader",
	"cache.StatsRecorder.Cache": "the wrapped cache, not a block",
}

func ruleBlockHolders(c *Ctx, r *Rep, tier string) {
	rule := "BLOCK-HOLDERS"
	blockI := c.Named("bgzf", "Block")
	blockS := c.Named("bgzf", "block")
	isBlock := func(t types.Type) bool {
		if types.Identical(t, blockI) {
			return true
		}
		if p, ok := t.(*types.Pointer); ok && types.Identical(p.Elem(), blockS) {
			return true
		}
		return false
	}
	seen := map[string]bool{}
	report := func(ok bool, key, pos, how, why string) {
		if seen[key] {
			if !ok {
				r.Check(false, rule, key, pos, how, why)
			}
			return
		}
		seen[key] = true
		r.Instance(rule, 1)
		r.Check(ok, rule, key, pos, how, why)
	}
	for _, pk := range []string{"bgzf", "bgzf/cache"} {
		for _, fn := range c.FuncsIn(pk) {
			fn := fn
			allInstrs(fn, func(ins ssa.Instruction) {
				switch x := ins.(type) {
				case *ssa.Store:
					if !isBlock(x.Val.Type()) {
						return
					}
					switch a := x.Addr.(type) {
					case *ssa.FieldAddr:
						fv := fieldVarOfAddr(a)
						owner := c.ownerOfField(fv)
						name := owner + "." + fv.Name()
						why, ok := blockHolders[name]
						report(ok, "holder:"+name, c.Pos(x.Pos()), why, "a Block is stored into "+name+", which is not one of the holders the ownership rules follow (Reader.current, decompressor.blk, the caches' entries): whether a block can sit there while it is current, cached or being filled is not decided")
					case *ssa.IndexAddr:
						report(false, "holder:"+c.FnName(fn)+"#element", c.Pos(x.Pos()), "", "a Block is stored into an element of a slice or array: a holder the ownership rules do not follow")
					}
				case *ssa.MapUpdate:
					if !isBlock(x.Value.Type()) {
						return
					}
					f, _ := loadedField(x.Map)
					name := "?"
					if f != nil {
						name = c.ownerOfField(f) + "." + f.Name()
					}
					why, ok := blockHolders[name]
					report(ok, "holder:"+name, c.Pos(x.Pos()), why, "a Block is put into the map "+name+", which is not one of the holders the ownership rules follow")
				case *ssa.Select:
					for _, stt := range x.States {
						if stt.Dir != types.SendOnly || stt.Send == nil || !isBlock(stt.Send.Type()) {
							continue
						}
						f, _ := loadedField(stt.Chan)
						name := "?"
						if f != nil {
							name = c.ownerOfField(f) + "." + f.Name()
						}
						report(false, "holder:chan "+name, c.Pos(x.Pos()), "", "a Block is sent on the channel "+name+" (in a select): a holder the ownership rules do not follow – a block can wait there while it is still the Reader's current block or a cache's entry, and whoever receives it overwrites it")
					}
				case *ssa.MakeChan:
					if ch, ok := x.Type().Underlying().(*types.Chan); ok && isBlock(ch.Elem()) {
						report(false, "holder:"+c.FnName(fn)+"#chan-of-blocks", c.Pos(x.Pos()), "", "a channel of Blocks is made: a holder the ownership rules do not follow")
					}
				case *ssa.Send:
					if !isBlock(x.X.Type()) {
						return
					}
					f, _ := loadedField(x.Chan)
					name := "?"
					if f != nil {
						name = c.ownerOfField(f) + "." + f.Name()
					}
					report(false, "holder:chan "+name, c.Pos(x.Pos()), "", "a Block is sent on the channel "+name+": a holder the ownership rules do not follow – a block can wait there while it is still the Reader's current block or a cache's entry, and whoever receives it overwrites it")
				}
			})
		}
	}
}

// ---- READ-FILLS ----------------------------------------------------------------
//
// "Every read … is short or empty only at the end of the data (or, in Blocked
// mode, of a block) where it reports io.EOF." In (*Reader).Read the return that
// hands back n with the recorded error is reached from the fill loop; each way
// there is justified by one of two facts, established on a branch edge that
// dominates it: the buffer is full (n compared with len(p)), or the recorded
// error was found non-nil. A way out of the loop with neither – twelfth-round
// seed C02-m left it "when the read-ahead has no block ready" – is a short read
// in mid-data without io.EOF.
func ruleReadFills(c *Ctx, r *Rep, tier string) {
	rule := "READ-FILLS"
	fn := c.Func("bgzf", "(*Reader).Read")
	errF := c.Field("bgzf", "Reader", "err")
	key := "bgzf.(*Reader).Read#short-only-with-error"
	r.Instance(rule, 1)
	if len(fn.Params) < 2 {
		r.Fail(rule, key, c.Pos(fn.Pos()), "no buffer parameter: undecided")
		return
	}
	p := fn.Params[1]
	isLenP := func(v ssa.Value) bool {
		a, ok := isLenCall(stripConv(v))
		return ok && a == ssa.Value(p)
	}
	// the return of (n, recorded error)
	var ret *ssa.Return
	allInstrs(fn, func(ins ssa.Instruction) {
		if rt, ok := ins.(*ssa.Return); ok && len(rt.Results) == 2 {
			if f, _ := loadedField(retValue(rt, 1)); f == errF {
				if _, isK := retValue(rt, 0).(*ssa.Const); !isK {
					ret = rt
				}
			}
		}
	})
	if ret == nil {
		r.Fail(rule, key, c.Pos(fn.Pos()), "no return of (n, recorded error) found: undecided")
		return
	}
	// justified edges
	type edge struct {
		b *ssa.BasicBlock
		k int
	}
	var good []edge
	for _, b := range fn.Blocks {
		ifi := ifOf(b)
		if ifi == nil || b.Succs[0] == b.Succs[1] {
			continue
		}
		bo, ok := ifi.Cond.(*ssa.BinOp)
		if !ok {
			continue
		}
		switch {
		case isLenP(bo.Y) && !isLenP(bo.X):
			// n OP len(p): the side on which n ≥ len(p)
			switch bo.Op {
			case token.LSS:
				good = append(good, edge{b, 1})
			case token.GEQ, token.EQL:
				good = append(good, edge{b, 0})
			case token.NEQ:
				good = append(good, edge{b, 1})
			}
		case isLenP(bo.X) && !isLenP(bo.Y):
			switch bo.Op {
			case token.GTR:
				good = append(good, edge{b, 1})
			case token.LEQ, token.EQL:
				good = append(good, edge{b, 0})
			case token.NEQ:
				good = append(good, edge{b, 1})
			}
		default:
			// recorded error OP nil
			f, _ := loadedField(bo.X)
			if f == errF && isNilConst(bo.Y) {
				if bo.Op == token.NEQ {
					good = append(good, edge{b, 0})
				} else if bo.Op == token.EQL {
					good = append(good, edge{b, 1})
				}
			}
		}
	}
	rb := ret.Block()
	why := ""
	for _, pred := range rb.Preds {
		ok := false
		for _, e := range good {
			if dominatedByEdge(fn, e.b, e.k, pred) || (pred == e.b && e.b.Succs[e.k] == rb && e.b.Succs[1-e.k] != rb) {
				ok = true
			}
		}
		if !ok {
			at := "-"
			if len(pred.Instrs) > 0 {
				at = c.Pos(pred.Instrs[len(pred.Instrs)-1].Pos())
				for i := len(pred.Instrs) - 1; i >= 0 && at == "-"; i-- {
					at = c.Pos(pred.Instrs[i].Pos())
				}
			}
			why = "Read can reach its return of (n, recorded error) from " + at + " where neither the buffer was found full nor the recorded error non-nil: a read that crosses a block end in the middle of the data comes back short with a nil error"
		}
	}
	r.Check(why == "", rule, key, c.Pos(ret.Pos()), fmt.Sprintf("each of the %d ways to the final return has the buffer full or an error recorded", len(rb.Preds)), why)

	// … and what Read returns as its error is the recorded error (or nil, or io.EOF
	// behind the test of Blocked): the io.EOF of the *block's* Read means "this block
	// is used up", not "the data ends" – returned as it is (fourteenth-round seed
	// C01-p: a fast path that serves a request from what is left of the current
	// block, and a zero-length request on a drained block) it is a clean end in
	// mid-data.
	r.Instance(rule, 1)
	blockedF := c.Field("bgzf", "Reader", "Blocked")
	why = ""
	allInstrs(fn, func(ins ssa.Instruction) {
		rt, ok := ins.(*ssa.Return)
		if !ok || len(rt.Results) != 2 {
			return
		}
		v := retValue(rt, 1)
		switch {
		case isNilConst(v):
		case isGlobalLoad(v, "io", "EOF"):
			okb := false
			for _, b := range fn.Blocks {
				ifi := ifOf(b)
				if ifi == nil {
					continue
				}
				if f, _ := loadedField(ifi.Cond); f == blockedF && dominatedByEdge(fn, b, 0, rt.Block()) {
					okb = true
				}
			}
			if !okb {
				why = "io.EOF is returned at " + c.Pos(rt.Pos()) + " outside the Blocked-mode branch"
			}
		default:
			if f, _ := loadedField(v); f != errF {
				why = "Read returns " + symKey(v) + " as its error at " + c.Pos(rt.Pos()) + ", not the recorded error: the io.EOF of a block that is used up – also what a zero-length request gets from it – reaches the caller as the end of the data"
			}
		}
	})
	r.Check(why == "", rule, "bgzf.(*Reader).Read#returns-recorded-error", c.Pos(fn.Pos()), "every error Read returns is the recorded one, nil, or io.EOF in Blocked mode", why)
}

// isResultBase: ins is a call of Base() on the block a read-ahead result
// carries – the Reader's current block (a load of the field), or the block that
// (*decompressor).wait returned, whether or not it has been stored to the field
// yet (a local in between is the same block).
func isResultBase(c *Ctx, ins ssa.Instruction, fCur *types.Var) bool {
	if ins == nil {
		return false
	}
	if isInvokeOnField(ins, fCur, "Base") {
		return true
	}
	call, ok := ins.(*ssa.Call)
	if !ok || !call.Call.IsInvoke() || call.Call.Method.Name() != "Base" {
		return false
	}
	wait := c.FuncOpt("bgzf", "(*decompressor).wait")
	var fromWait func(v ssa.Value, depth int) bool
	fromWait = func(v ssa.Value, depth int) bool {
		if depth > 6 {
			return false
		}
		switch x := v.(type) {
		case *ssa.Extract:
			if cl, ok := x.Tuple.(*ssa.Call); ok && x.Index == 0 && wait != nil && staticCallee(&cl.Call) == wait {
				return true
			}
		case *ssa.Phi:
			for _, e := range x.Edges {
				if !fromWait(e, depth+1) {
					return false
				}
			}
			return len(x.Edges) > 0
		case *ssa.ChangeInterface:
			return fromWait(x.X, depth+1)
		}
		return false
	}
	return fromWait(call.Call.Value, 0)
}

// paramIndexThroughIdentity: v is parameter i of fn, possibly through methods
// that return their receiver; −1 otherwise.
func paramIndexThroughIdentity(v ssa.Value, fn *ssa.Function, identity func(*ssa.Function) bool) int {
	for depth := 0; depth < 4; depth++ {
		if call, ok := v.(*ssa.Call); ok {
			if callee := staticCallee(&call.Call); identity(callee) && len(call.Call.Args) > 0 {
				v = call.Call.Args[0]
				continue
			}
		}
		break
	}
	for i, p := range fn.Params {
		if ssa.Value(p) == v {
			return i
		}
	}
	return -1
}

// receiverFactsAt: which pointer fields of g's receiver are known nil / non-nil
// at the call cs – the call is dominated by an edge of a test of the field, and
// g does not assign the field.
func receiverFactsAt(g *ssa.Function, cs *ssa.Call) map[*types.Var]bool {
	facts := map[*types.Var]bool{}
	if len(g.Params) == 0 {
		return facts
	}
	stored := map[*types.Var]bool{}
	allInstrs(g, func(ins ssa.Instruction) {
		if st, ok := ins.(*ssa.Store); ok {
			if fa, ok := st.Addr.(*ssa.FieldAddr); ok {
				stored[fieldVarOfAddr(fa)] = true
			}
		}
	})
	for _, b := range g.Blocks {
		ifi := ifOf(b)
		if ifi == nil || b.Succs[0] == b.Succs[1] {
			continue
		}
		bo, ok := ifi.Cond.(*ssa.BinOp)
		if !ok || (bo.Op != token.EQL && bo.Op != token.NEQ) || !isNilConst(bo.Y) {
			continue
		}
		f, base := loadedField(bo.X)
		if f == nil || origin(base) != ssa.Value(g.Params[0]) || stored[f] {
			continue
		}
		nilEdge := 0
		if bo.Op == token.NEQ {
			nilEdge = 1
		}
		if dominatedByEdge(g, b, nilEdge, cs.Block()) {
			facts[f] = true
		} else if dominatedByEdge(g, b, 1-nilEdge, cs.Block()) {
			facts[f] = false
		}
	}
	return facts
}

// ---- ERR-OVERWRITE -------------------------------------------------------------
//
// The Reader's sticky error is a field. An error stored there is reported only
// if somebody looks at the field before it is assigned again: a store of a value
// that may be a failure, followed on some path by another store to the field
// with no load of it in between, is a failure swallowed. The paths run through
// calls: a helper that leaves a failure in the field "returns it" that way, and
// a caller that then does `bg.err = bg.nextBlock()` with a nextBlock that did
// not look (twelfth-round seed C09-n, after the protocol rules had been made to
// survive the extraction of that helper) overwrites it with nil.
//
// For the methods of bgzf.Reader: pending(F) – F can return with a possibly
// non-nil store to the field unobserved – is computed as a fixpoint over the
// static call graph; an obligation per function: no pending store (direct, or
// left by a callee on the same receiver) reaches a direct store to the field
// without passing a load of the field.
func ruleErrOverwrite(c *Ctx, r *Rep, tier string) {
	rule := "ERR-OVERWRITE"
	errF := c.Field("bgzf", "Reader", "err")
	var fns []*ssa.Function
	for _, fn := range c.FuncsIn("bgzf") {
		if fn.Blocks == nil || len(fn.Params) == 0 || fn.Signature.Recv() == nil {
			continue
		}
		if !strings.Contains(fn.Signature.Recv().Type().String(), "bgzf.Reader") {
			continue
		}
		fns = append(fns, fn)
	}
	onRecv := func(fn *ssa.Function, addr ssa.Value) bool {
		fa, ok := addr.(*ssa.FieldAddr)
		return ok && fieldVarOfAddr(fa) == errF && origin(fa.X) == ssa.Value(fn.Params[0])
	}
	isLoad := func(fn *ssa.Function) func(ssa.Instruction) bool {
		return func(x ssa.Instruction) bool {
			u, ok := x.(*ssa.UnOp)
			return ok && u.Op == token.MUL && onRecv(fn, u.X)
		}
	}
	isStore := func(fn *ssa.Function) func(ssa.Instruction) bool {
		return func(x ssa.Instruction) bool {
			st, ok := x.(*ssa.Store)
			return ok && onRecv(fn, st.Addr)
		}
	}
	pending := map[*ssa.Function]bool{}
	sources := func(fn *ssa.Function) []ssa.Instruction {
		var out []ssa.Instruction
		allInstrs(fn, func(x ssa.Instruction) {
			switch y := x.(type) {
			case *ssa.Store:
				if onRecv(fn, y.Addr) && !isNilConst(y.Val) {
					out = append(out, x)
				}
			case *ssa.Call:
				if g := staticCallee(&y.Call); g != nil && pending[g] && len(y.Call.Args) > 0 && origin(y.Call.Args[0]) == ssa.Value(fn.Params[0]) {
					out = append(out, x)
				}
			}
		})
		return out
	}
	for changed := true; changed; {
		changed = false
		for _, fn := range fns {
			if pending[fn] {
				continue
			}
			ld := isLoad(fn)
			stf := isStore(fn)
			for _, src := range sources(fn) {
				if _, reach := pathTo(locOf(src), isReturn, func(x ssa.Instruction) bool { return ld(x) || stf(x) }, nil); reach {
					pending[fn] = true
					changed = true
					break
				}
			}
		}
	}
	for _, fn := range fns {
		srcs := sources(fn)
		if len(srcs) == 0 {
			continue
		}
		r.Instance(rule, 1)
		key := c.FnName(fn) + "#error-observed"
		ld := isLoad(fn)
		stf := isStore(fn)
		why := ""
		for _, src := range srcs {
			// a store whose value is the result of the source call itself (bg.err = bg.f())
			// is the first thing after it: still an overwrite of what f left in the field
			if bad, reach := pathTo(locOf(src), stf, ld, nil); reach {
				what := "the failure stored at " + c.Pos(src.Pos())
				if cl, ok := src.(*ssa.Call); ok {
					what = "the failure " + staticCallee(&cl.Call).Name() + " can leave in the field (" + c.Pos(src.Pos()) + ")"
				}
				why = what + " is overwritten at " + c.Pos(bad.Pos()) + " without the field having been read in between: the error of that read is swallowed – the caller sees a clean result, and the state the failure left (a block without data, a parked read-ahead goroutine) is carried on with"
			}
		}
		r.Check(why == "", rule, key, c.Pos(fn.Pos()), fmt.Sprintf("every possibly failing store to Reader.err (%d, callees that leave one included) is read before the field is assigned again", len(srcs)), why)
	}
}

// ---- FAILED-CURRENT ------------------------------------------------------------
//
// After a failure – the end of the stream included – the Reader's current block
// is the failed one: it has no data, so Seek's shortcut for "the block I hold"
// (same base, hasData) is not taken, the slow path runs and re-points the
// read-ahead goroutine, which the failure has parked. A nextBlock that keeps the
// previous block when the next one failed (twelfth-round seed C02-n: "so that
// BlockLen and a Seek back into it keep working after the end") lets a Seek into
// that block clear the error and the next Read wait on a parked goroutine.
//
// Decided in (*Reader).nextBlock: for every (*decompressor).wait() whose error
// can be the function's result, every path from that call to such a return
// passes a store of the block the same call returned into Reader.current.
func ruleFailedCurrent(c *Ctx, r *Rep, tier string) {
	rule := "FAILED-CURRENT"
	fn := c.Func("bgzf", "(*Reader).nextBlock")
	wait := c.Func("bgzf", "(*decompressor).wait")
	curF := c.Field("bgzf", "Reader", "current")
	var reach func(v, target ssa.Value, seen map[ssa.Value]bool) bool
	reach = func(v, target ssa.Value, seen map[ssa.Value]bool) bool {
		if v == target {
			return true
		}
		if seen[v] {
			return false
		}
		seen[v] = true
		if p, ok := v.(*ssa.Phi); ok {
			for _, e := range p.Edges {
				if reach(e, target, seen) {
					return true
				}
			}
		}
		return false
	}
	k := 0
	allInstrs(fn, func(ins ssa.Instruction) {
		w, ok := ins.(*ssa.Call)
		if !ok || staticCallee(&w.Call) != wait {
			return
		}
		var blk, errv ssa.Value
		for _, ref := range *w.Referrers() {
			if ex, ok := ref.(*ssa.Extract); ok {
				if ex.Index == 0 {
					blk = ex
				} else {
					errv = ex
				}
			}
		}
		if errv == nil {
			return
		}
		var rets []*ssa.Return
		allInstrs(fn, func(x ssa.Instruction) {
			if rt, ok := x.(*ssa.Return); ok && len(rt.Results) == 1 && reach(retValue(rt, 0), errv, map[ssa.Value]bool{}) {
				rets = append(rets, rt)
			}
		})
		if len(rets) == 0 {
			return
		}
		k++
		r.Instance(rule, 1)
		key := fmt.Sprintf("bgzf.(*Reader).nextBlock#failed-block-current~%d", k)
		storesIt := func(x ssa.Instruction) bool {
			st, ok := x.(*ssa.Store)
			if !ok || blk == nil {
				return false
			}
			fa, ok := st.Addr.(*ssa.FieldAddr)
			return ok && fieldVarOfAddr(fa) == curF && reach(st.Val, blk, map[ssa.Value]bool{})
		}
		why := ""
		for _, rt := range rets {
			rt := rt
			if _, ok := mustPass(locOf(w), func(x ssa.Instruction) bool { return x == ssa.Instruction(rt) }, storesIt, nil); !ok {
				why = "the error of the wait at " + c.Pos(w.Pos()) + " can be returned at " + c.Pos(rt.Pos()) + " without the block of that result having been made current: the Reader keeps the previous block, with data – a Seek into it takes the shortcut, clears the error, and the next Read waits on a read-ahead goroutine the failure has parked"
			}
		}
		r.Check(why == "", rule, key, c.Pos(w.Pos()), "the failed block is current before its error is returned", why)
	})
	if k == 0 {
		r.Instance(rule, 1)
		r.Fail(rule, "bgzf.(*Reader).nextBlock#waits", c.Pos(fn.Pos()), "no wait() whose error nextBlock returns: the rule's anchor moved (undecided)")
	}
}

// ---- MERGE-ERR-ORIGIN ----------------------------------------------------------
//
// "… ends with io.EOF only after all inputs ended cleanly (an input's read error
// is reported, not dropped)": once a Merger exists, the only errors it has to
// tell are its inputs'. Decided for the methods of bam.Merger (the constructor
// aside – it may refuse inputs): every error they return, and every value they
// store into Merger.err or reader.err, is – through φs – nil, io.EOF, the error
// result of a source's Read, one of those two fields read back, or the result of
// another of these methods. An error of the Merger's own making (thirteenth-round
// seed C18-m: a "source is not sorted" check that asks the less function, which
// is not strict for unplaced records) ends a merge of well-sorted inputs early.
func ruleMergeErrOrigin(c *Ctx, r *Rep, tier string) {
	rule := "MERGE-ERR-ORIGIN"
	mergerErr := c.Field("bam", "Merger", "err")
	readerErr := c.Field("bam", "reader", "err")
	srcRead := c.Func("bam", "(*Reader).Read")
	var fns []*ssa.Function
	inSet := map[*ssa.Function]bool{}
	for _, fn := range c.FuncsIn("bam") {
		if fn.Blocks == nil || fn.Signature.Recv() == nil {
			continue
		}
		if strings.HasSuffix(fn.Signature.Recv().Type().String(), "bam.Merger") {
			fns = append(fns, fn)
			inSet[fn] = true
		}
	}
	var okValue func(v ssa.Value, seen map[ssa.Value]bool) string
	okValue = func(v ssa.Value, seen map[ssa.Value]bool) string {
		if seen[v] {
			return ""
		}
		seen[v] = true
		switch x := v.(type) {
		case *ssa.Const:
			if x.IsNil() {
				return ""
			}
		case *ssa.Phi:
			for _, e := range x.Edges {
				if w := okValue(e, seen); w != "" {
					return w
				}
			}
			return ""
		case *ssa.UnOp:
			if x.Op == token.MUL {
				if isGlobalLoad(x, "io", "EOF") {
					return ""
				}
				if f, _ := loadedField(x); f == mergerErr || f == readerErr {
					return ""
				}
				// results spilled to a local
				if al, ok := x.X.(*ssa.Alloc); ok {
					for _, ref := range *al.Referrers() {
						if st, ok := ref.(*ssa.Store); ok && st.Addr == al {
							if w := okValue(st.Val, seen); w != "" {
								return w
							}
						}
					}
					return ""
				}
				if g, ok := x.X.(*ssa.Global); ok {
					return "the package's own error " + g.Name()
				}
			}
		case *ssa.Extract:
			if call, ok := x.Tuple.(*ssa.Call); ok {
				g := staticCallee(&call.Call)
				if g == srcRead || inSet[g] {
					return ""
				}
				return "the result of " + calleeFullName(&call.Call)
			}
		case *ssa.Call:
			g := staticCallee(&x.Call)
			if inSet[g] {
				return ""
			}
			return "the result of " + calleeFullName(&x.Call)
		case *ssa.MakeInterface:
			return "a value made here (" + symKey(x.X) + ")"
		}
		return symKey(v)
	}
	for _, fn := range fns {
		fn := fn
		n := 0
		why := ""
		allInstrs(fn, func(ins ssa.Instruction) {
			switch x := ins.(type) {
			case *ssa.Return:
				for i, res := range x.Results {
					if !isErrorTyped(res) {
						continue
					}
					n++
					if w := okValue(retValue(x, i), map[ssa.Value]bool{}); w != "" {
						why = "returns " + w + " at " + c.Pos(x.Pos())
					}
				}
			case *ssa.Store:
				fa, ok := x.Addr.(*ssa.FieldAddr)
				if !ok {
					return
				}
				if f := fieldVarOfAddr(fa); f == mergerErr || f == readerErr {
					n++
					if w := okValue(x.Val, map[ssa.Value]bool{}); w != "" {
						why = "records " + w + " at " + c.Pos(x.Pos())
					}
				}
			}
		})
		if n == 0 {
			continue
		}
		r.Instance(rule, 1)
		if why != "" {
			why = "the Merger " + why + ": an error that no input produced – inputs that are each sorted and read cleanly must merge to the end"
		}
		r.Check(why == "", rule, c.FnName(fn)+"#errors-from-inputs", c.Pos(fn.Pos()), fmt.Sprintf("all %d error values returned or recorded come from the inputs", n), why)
	}
}

// ---- SEQ-ABSENT ----------------------------------------------------------------
//
// SEQ may be "*" – the sequence is not stored – whatever the CIGAR says; the
// agreement of the CIGAR's query length with the sequence is defined for a
// sequence that is there. Secondary alignments are written that way, and the
// library's own BAM reader returns such records. A parser or formatter that
// asks Cigar.IsValid(Seq.Length) for an absent sequence (length 0) refuses them
// (thirteenth-round seed C06-n moved the check into a helper shared by
// UnmarshalSAM and MarshalSAM and lost the guard on the way).
//
// Decided for every call of (Cigar).IsValid in package sam outside the exported
// predicate that is its purpose: the call is dominated by an edge on which the
// sequence is present – the not-equal edge of bytes.Equal(field, "*"), or the
// non-zero edge of a test of Seq.Length – in its function, or at every call
// site of that function.
func ruleSeqAbsent(c *Ctx, r *Rep, tier string) {
	rule := "SEQ-ABSENT"
	isValid := c.Func("sam", "(Cigar).IsValid")
	lenF := c.Field("sam", "Seq", "Length")
	present := func(fn *ssa.Function, at *ssa.BasicBlock) bool {
		for _, b := range fn.Blocks {
			ifi := ifOf(b)
			if ifi == nil || b.Succs[0] == b.Succs[1] {
				continue
			}
			cond, neg := ifi.Cond, false
			if u, ok := cond.(*ssa.UnOp); ok && u.Op == token.NOT {
				cond, neg = u.X, true
			}
			edge := -1
			switch x := cond.(type) {
			case *ssa.Call:
				if calleeFullName(&x.Call) == "bytes.Equal" {
					star := false
					for _, a := range x.Call.Args {
						if s, ok := constByteSlice(a); ok && len(s) == 1 && s[0] == '*' {
							star = true
						}
					}
					if star {
						edge = 1 // not equal: present
						if neg {
							edge = 0
						}
					}
				}
			case *ssa.BinOp:
				f, _ := loadedField(stripConv(x.X))
				k, isK := constInt(x.Y)
				if f == lenF && isK && k == 0 {
					switch x.Op {
					case token.NEQ, token.GTR:
						edge = 0
					case token.EQL, token.LEQ:
						edge = 1
					}
					if neg && edge >= 0 {
						edge = 1 - edge
					}
				}
			}
			if edge >= 0 && dominatedByEdge(fn, b, edge, at) {
				return true
			}
		}
		return false
	}
	var guarded func(fn *ssa.Function, at *ssa.BasicBlock, depth int) bool
	guarded = func(fn *ssa.Function, at *ssa.BasicBlock, depth int) bool {
		if present(fn, at) {
			return true
		}
		if depth > 2 {
			return false
		}
		// every call site of fn
		sites := 0
		all := true
		for _, g := range c.FuncsIn("sam") {
			g := g
			allInstrs(g, func(x ssa.Instruction) {
				if cl, ok := x.(*ssa.Call); ok && staticCallee(&cl.Call) == fn {
					sites++
					if !guarded(g, cl.Block(), depth+1) {
						all = false
					}
				}
			})
		}
		return sites > 0 && all
	}
	k := 0
	for _, fn := range c.FuncsIn("sam") {
		if fn.Name() == "IsValidRecord" {
			continue
		}
		fn := fn
		allInstrs(fn, func(ins ssa.Instruction) {
			call, ok := ins.(*ssa.Call)
			if !ok || staticCallee(&call.Call) != isValid {
				return
			}
			k++
			r.Instance(rule, 1)
			key := fmt.Sprintf("%s#cigar-check-needs-seq~%d", c.FnName(fn), k)
			r.Check(guarded(fn, call.Block(), 0), rule, key, c.Pos(call.Pos()), "the CIGAR is compared with the sequence only where the sequence is present", "Cigar.IsValid(Seq.Length) is asked where the sequence may be absent (SEQ \"*\", length 0): a record with a CIGAR and no stored sequence – a secondary alignment, or any record the BAM reader returned without bases – is refused")
		})
	}
	if k == 0 {
		r.Instance(rule, 1)
		r.Fail(rule, "sam#cigar-seq-check", "sam/record.go", "no call of Cigar.IsValid in package sam outside IsValidRecord: the rule's anchor moved (undecided)")
	}
}

// constByteSlice: v is a []byte literal of constants ([]byte{'*'}) – go/ssa
// builds it as a slice of a new array with constant stores, or a conversion
// of a constant string.
func constByteSlice(v ssa.Value) ([]byte, bool) {
	switch x := v.(type) {
	case *ssa.Convert:
		if k, ok := x.X.(*ssa.Const); ok && k.Value != nil {
			if s, err := strconv.Unquote(k.Value.ExactString()); err == nil {
				return []byte(s), true
			}
		}
	case *ssa.Slice:
		al, ok := x.X.(*ssa.Alloc)
		if !ok {
			return nil, false
		}
		at, ok := al.Type().(*types.Pointer).Elem().Underlying().(*types.Array)
		if !ok {
			return nil, false
		}
		out := make([]byte, at.Len())
		n := 0
		for _, ref := range *al.Referrers() {
			ia, ok := ref.(*ssa.IndexAddr)
			if !ok {
				continue
			}
			idx, ok := constInt(ia.Index)
			if !ok || idx < 0 || idx >= at.Len() {
				return nil, false
			}
			for _, r2 := range *ia.Referrers() {
				if st, ok := r2.(*ssa.Store); ok {
					if kv, ok := constInt(st.Val); ok {
						out[idx] = byte(kv)
						n++
					}
				}
			}
		}
		return out, int64(n) == at.Len()
	}
	return nil, false
}

// ---- MARKER-ONCE ---------------------------------------------------------------
//
// "A stream ends with the EOF marker iff the writer was closed without error",
// and a prefix cut at a block boundary reads cleanly with HasEOF false: both
// need the 28 marker bytes to reach the output exactly once, last, and only on
// the success path of Close (W6 decides the path). Nothing else may emit them: a
// block that happens to be empty written as the constant (fourteenth-round seeds
// C08-o and C10-p: "an empty block is the same whatever the level") puts a
// marker in front of the real one – if the last write fails the stream ends
// with a marker although Close reported the failure, and the prefix that stops
// before the real marker has HasEOF true.
//
// Who may use the constant, decided on the type-checked syntax: HasEOF, for the
// comparison; (*Writer).Close, once. Any other reference – in a function, or in
// a package-level initialiser that would carry it elsewhere – is reported.
func ruleMarkerOnce(c *Ctx, r *Rep, tier string) {
	rule := "MARKER-ONCE"
	p := c.ByPath["bgzf"]
	if p == nil {
		unresolved("package bgzf")
	}
	obj := p.Types.Scope().Lookup("magicBlock")
	if obj == nil {
		unresolved("bgzf.magicBlock")
	}
	type site struct {
		where string
		pos   token.Pos
	}
	var uses []site
	for _, f := range p.Syntax {
		if strings.HasSuffix(c.Fset.Position(f.Pos()).Filename, "_test.go") {
			continue
		}
		for _, d := range f.Decls {
			where := "package level"
			if fd, ok := d.(*ast.FuncDecl); ok {
				where = fd.Name.Name
				if fd.Recv != nil && len(fd.Recv.List) == 1 {
					where = "(" + types.ExprString(fd.Recv.List[0].Type) + ")." + fd.Name.Name
				}
			} else if gd, ok := d.(*ast.GenDecl); ok && gd.Tok == token.CONST {
				continue // its own declaration
			}
			ast.Inspect(d, func(n ast.Node) bool {
				if id, ok := n.(*ast.Ident); ok && p.TypesInfo.Uses[id] == obj {
					uses = append(uses, site{where, id.Pos()})
				}
				return true
			})
		}
	}
	r.Instance(rule, 1)
	why := ""
	closeUses := 0
	for _, u := range uses {
		switch u.where {
		case "HasEOF":
		case "(*Writer).Close":
			closeUses++
		default:
			why = "the EOF marker constant is used in " + u.where + " (" + c.Pos(u.pos) + "): the 28 bytes that mean \"closed without error\" can reach the output from there – in front of the real marker, or without Close having succeeded"
		}
	}
	if why == "" && closeUses != 1 {
		why = fmt.Sprintf("(*Writer).Close refers to the EOF marker %d times, want once", closeUses)
	}
	r.Check(why == "", rule, "bgzf.magicBlock#users", c.Pos(obj.Pos()), fmt.Sprintf("used by HasEOF and once by (*Writer).Close only (%d references)", len(uses)), why)
}

// ---- W-DIRECT ------------------------------------------------------------------
//
// "Whenever the underlying writer has returned from a write, the bytes … form a
// sequence of complete blocks": W4 shows that each block is handed to Writer.w in
// one call; that is a statement about the destination only if Writer.w *is* the
// destination. A layer put between the two when the Writer is made (fourteenth-
// round seed C12-p: a bufio.Writer of MaxBlockSize that "gathers" small blocks
// and, when a block does not fit what is left of its buffer, flushes the full
// buffer – mid-block) re-cuts what W4 counted.
//
// Decided for every store to the field Writer.w: the value is a parameter of the
// function that makes the Writer, as given (an interface conversion of the same
// value apart) – not something the library built around it.
func ruleWDirect(c *Ctx, r *Rep, tier string) {
	rule := "W-DIRECT"
	wF := c.Field("bgzf", "Writer", "w")
	n := 0
	for _, fn := range c.FuncsIn("bgzf") {
		fn := fn
		allInstrs(fn, func(ins ssa.Instruction) {
			st, ok := ins.(*ssa.Store)
			if !ok {
				return
			}
			fa, ok := st.Addr.(*ssa.FieldAddr)
			if !ok || fieldVarOfAddr(fa) != wF {
				return
			}
			n++
			r.Instance(rule, 1)
			key := fmt.Sprintf("%s#destination~%d", c.FnName(fn), n)
			v := st.Val
			for i := 0; i < 3; i++ {
				switch x := v.(type) {
				case *ssa.ChangeInterface:
					v = x.X
					continue
				case *ssa.MakeInterface:
					v = x.X
					continue
				}
				break
			}
			_, isParam := v.(*ssa.Parameter)
			why := ""
			if !isParam {
				why = "Writer.w is set to " + symKey(st.Val) + ", not to the writer the caller gave: what the library puts in between decides where the bytes are cut on their way to the destination, and \"one Write per block\" (W4) no longer says anything about the file"
			}
			r.Check(why == "", rule, key, c.Pos(st.Pos()), "the destination is the caller's writer itself", why)
		})
	}
	if n == 0 {
		r.Instance(rule, 1)
		r.Fail(rule, "bgzf.Writer.w#stores", "bgzf/writer.go", "no store to Writer.w found: the rule's anchor moved (undecided)")
	}
}

// seqLengthNonZeroAt: block at is dominated by the non-zero edge of a test of
// Seq.Length against 0.
func seqLengthNonZeroAt(c *Ctx, fn *ssa.Function, at *ssa.BasicBlock) bool {
	lenF := c.Field("sam", "Seq", "Length")
	for _, b := range fn.Blocks {
		ifi := ifOf(b)
		if ifi == nil || b.Succs[0] == b.Succs[1] {
			continue
		}
		x, ok := ifi.Cond.(*ssa.BinOp)
		if !ok {
			continue
		}
		f, _ := loadedField(stripConv(x.X))
		k, isK := constInt(x.Y)
		if f != lenF || !isK || k != 0 {
			continue
		}
		edge := -1
		switch x.Op {
		case token.NEQ, token.GTR:
			edge = 0
		case token.EQL, token.LEQ:
			edge = 1
		}
		if edge >= 0 && dominatedByEdge(fn, b, edge, at) {
			return true
		}
	}
	return false
}

// ---- STORE-AS-READ -------------------------------------------------------------
//
// The header's line parsers keep the text of a field as it stands: what was
// written is what is read, so what is read is what will be written again. A
// parser that leaves a field out because of what its value is – without refusing
// the line – writes another text than it read (fifteenth-round seed C07-p:
// "FO:*" taken for "no flow order", although NewReadGroup keeps "*" and String
// writes it: the header parses to one that serialises five bytes shorter).
//
// Decided in readGroupLine, programLine and referenceLine: no store of a field's
// text into the item being built is dominated by an edge of a comparison of that
// same text with a constant, unless the other edge of the comparison refuses the
// line (returns an error).
func ruleStoreAsRead(c *Ctx, r *Rep, tier string) {
	rule := "STORE-AS-READ"
	for _, name := range []string{"readGroupLine", "programLine", "referenceLine"} {
		fn := c.Func("sam", name)
		r.Instance(rule, 1)
		why := ""
		n := 0
		allInstrs(fn, func(ins ssa.Instruction) {
			st, ok := ins.(*ssa.Store)
			if !ok {
				return
			}
			if _, isFA := st.Addr.(*ssa.FieldAddr); !isFA {
				return
			}
			if b, ok := st.Val.Type().Underlying().(*types.Basic); !ok || b.Kind() != types.String {
				return
			}
			if _, isK := st.Val.(*ssa.Const); isK {
				return
			}
			n++
			for _, b := range fn.Blocks {
				ifi := ifOf(b)
				if ifi == nil || b.Succs[0] == b.Succs[1] {
					continue
				}
				bo, ok := ifi.Cond.(*ssa.BinOp)
				if !ok || (bo.Op != token.EQL && bo.Op != token.NEQ) {
					continue
				}
				var other ssa.Value
				switch {
				case bo.X == st.Val:
					other = bo.Y
				case bo.Y == st.Val:
					other = bo.X
				default:
					continue
				}
				if _, isK := other.(*ssa.Const); !isK {
					continue
				}
				for e := 0; e < 2; e++ {
					if !dominatedByEdge(fn, b, e, st.Block()) {
						continue
					}
					// the other edge refuses the line?
					refuses := false
					if _, reach := pathTo(Loc{b.Succs[1-e], -1}, func(x ssa.Instruction) bool {
						rt, ok := x.(*ssa.Return)
						return ok && len(rt.Results) > 0 && isNilConst(retValue(rt, len(rt.Results)-1))
					}, nil, nil); !reach {
						refuses = true
					}
					if !refuses {
						why = fmt.Sprintf("the text of a field is stored at %s only where it differs from (or equals) the constant %s, and the line is accepted either way: a value the writer writes is dropped by the reader – the header does not serialise to the text it was parsed from", c.Pos(st.Pos()), symKey(other))
					}
				}
			}
		})
		if n == 0 {
			why = "no store of a field's text found: the rule's anchor moved (undecided)"
		}
		r.Check(why == "", rule, "sam."+name+"#fields-kept", c.Pos(fn.Pos()), fmt.Sprintf("%d field texts stored whatever their value", n), why)
	}
}
