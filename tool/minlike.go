package main

import "golang.org/x/tools/go/ssa"

// minArgs: the arguments of a call that returns the smaller of its two
// arguments – the builtin min, or a module function that does (decided by
// evaluating it for a<b, a>b, a=b).
func minArgs(v ssa.Value) ([]ssa.Value, bool) {
	call, ok := v.(*ssa.Call)
	if !ok {
		return nil, false
	}
	if b, isB := call.Call.Value.(*ssa.Builtin); isB && b.Name() == "min" {
		return call.Call.Args, true
	}
	if g := staticCallee(&call.Call); g != nil && len(call.Call.Args) == 2 && isMinFunc(g) {
		return call.Call.Args, true
	}
	return nil, false
}
