// C17: merge strategies – the structural part only.
//
// The input/output relation of the merge loops (order, idempotence, exact
// coverage) is value-level and depends on slice aliasing; it is not decided.
// What is decided is the shape every coverage-preserving merge step must have.
// Two ways of writing the loop are understood, both through *role keys* – values
// rendered in terms of the list L, the read cursor i and (if there is one) the
// write index n, with local copies of elements resolved to the element they were
// copied from, so that no variable name matters:
//
//	splice form      for i := 1; i < len(L); i++ { left := L[i-1]; right := &L[i]
//	                   if T(left.End, right.Begin) { right.Begin = left.Begin
//	                     if left.End > right.End { right.End = left.End }
//	                     L = append(L[:i-1], L[i:]...); i-- } }
//	accumulate form  n := 0; for i := 1; i < len(L); i++ {
//	                   if T(L[n].End, L[i].Begin) {
//	                     if L[i].End > L[n].End { L[n].End = L[i].End }; continue }
//	                   n++; L[n] = L[i] }; return L[:n+1]
//
// In both, the test looks at the End of the *accumulated* chunk (L[i-1] after the
// splice and step back; L[n]) and the Begin of the current one; the survivor has
// the accumulated Begin and the larger End; nothing else is written. Squash
// returns the first Begin and a running maximum of the Ends; Identity returns
// its argument; every caller hands the strategies a list sorted by begin offset
// (SORTED-PRE, C04).
package main

import (
	"fmt"
	"go/token"
	"go/types"
	"strings"

	"golang.org/x/tools/go/ssa"
)

func mergeLoopFuncs(c *Ctx) map[string]*ssa.Function {
	out := map[string]*ssa.Function{"adjacent": c.Func("bgzf/index", "adjacent")}
	cs := c.Func("bgzf/index", "CompressorStrategy")
	if len(cs.AnonFuncs) != 1 {
		unresolved("bgzf/index.CompressorStrategy: %d function literals", len(cs.AnonFuncs))
	}
	out["CompressorStrategy$1"] = cs.AnonFuncs[0]
	return out
}

// mergeRoles renders values of a merge loop in role terms.
type mergeRoles struct {
	fn   *ssa.Function
	idx  *ssa.Phi // read cursor: the phi compared with len(L)
	w    *ssa.Phi // write index (accumulate form)
	memo map[ssa.Value]bool
}

// isList: v is the chunk list – the first parameter, or what becomes of it
// through phis and splicing appends (greatest fixpoint over the loop's phis).
func (m *mergeRoles) isList(v ssa.Value) bool {
	if m.memo == nil {
		m.memo = map[ssa.Value]bool{}
		if len(m.fn.Params) > 0 {
			m.memo[m.fn.Params[0]] = true
		}
		var cands []ssa.Value
		allInstrs(m.fn, func(ins ssa.Instruction) {
			switch x := ins.(type) {
			case *ssa.Phi:
				cands = append(cands, x)
				m.memo[x] = true
			case *ssa.Call:
				if _, ok := isBuiltinCall(x, "append"); ok {
					cands = append(cands, x)
					m.memo[x] = true
				}
			}
		})
		for changed := true; changed; {
			changed = false
			for _, cv := range cands {
				if !m.memo[cv] {
					continue
				}
				ok := true
				switch x := cv.(type) {
				case *ssa.Phi:
					n := 0
					for _, e := range x.Edges {
						if e == ssa.Value(x) {
							continue
						}
						n++
						if !m.memo[e] {
							ok = false
						}
					}
					ok = ok && n > 0
				case *ssa.Call:
					cc, _ := isBuiltinCall(x, "append")
					ok = false
					if cc != nil && len(cc.Args) == 2 {
						a, ok1 := cc.Args[0].(*ssa.Slice)
						b, ok2 := cc.Args[1].(*ssa.Slice)
						ok = ok1 && ok2 && m.memo[a.X] && m.memo[b.X]
					}
				}
				if !ok {
					m.memo[cv] = false
					changed = true
				}
			}
		}
	}
	return m.memo[v]
}

func (m *mergeRoles) key(v ssa.Value) string { return m.keyD(v, 0) }

func (m *mergeRoles) keyD(v ssa.Value, d int) string {
	if v == nil {
		return ""
	}
	if d > 16 {
		return "…"
	}
	if m.isList(v) {
		return "L"
	}
	switch x := v.(type) {
	case *ssa.Const:
		if x.Value == nil {
			return "nil"
		}
		return x.Value.ExactString()
	case *ssa.Phi:
		if x == m.idx {
			return "i"
		}
		if x == m.w {
			return "n"
		}
		return fmt.Sprintf("φ%d.%s", x.Block().Index, x.Name())
	case *ssa.Parameter:
		return "$" + x.Name()
	case *ssa.FreeVar:
		return "$" + x.Name()
	case *ssa.Convert:
		return m.keyD(x.X, d+1)
	case *ssa.ChangeType:
		return m.keyD(x.X, d+1)
	case *ssa.BinOp:
		return "(" + m.keyD(x.X, d+1) + x.Op.String() + m.keyD(x.Y, d+1) + ")"
	case *ssa.UnOp:
		if x.Op == token.MUL {
			return m.addr(x.X, d+1)
		}
		return x.Op.String() + m.keyD(x.X, d+1)
	case *ssa.Field:
		return m.keyD(x.X, d+1) + "." + fieldVarOfField(x).Name()
	case *ssa.FieldAddr, *ssa.IndexAddr, *ssa.Alloc:
		return "&" + m.addr(v, d+1)
	case *ssa.Slice:
		lo, hi := "", ""
		if x.Low != nil {
			lo = m.keyD(x.Low, d+1)
		}
		if x.High != nil {
			hi = m.keyD(x.High, d+1)
		}
		return m.keyD(x.X, d+1) + "[" + lo + ":" + hi + "]"
	case *ssa.Call:
		if cc, ok := isBuiltinCall(x, "append"); ok {
			var as []string
			for _, a := range cc.Args {
				as = append(as, m.keyD(a, d+1))
			}
			return "append(" + strings.Join(as, ",") + ")"
		}
		if cc, ok := isBuiltinCall(x, "len"); ok {
			return "len(" + m.keyD(cc.Args[0], d+1) + ")"
		}
		if g := staticCallee(&x.Call); g != nil && isVOffsetFunc(g) {
			return "v(" + m.keyD(x.Call.Args[0], d+1) + ")"
		}
		return symKey(x)
	}
	return symKey(v)
}

// addr: the location an address denotes. A local struct variable that holds a
// copy of a list element stands for that element.
func (m *mergeRoles) addr(a ssa.Value, d int) string {
	switch x := a.(type) {
	case *ssa.FieldAddr:
		return m.addr(x.X, d+1) + "." + fieldVarOfAddr(x).Name()
	case *ssa.IndexAddr:
		return m.keyD(x.X, d+1) + "[" + m.keyD(x.Index, d+1) + "]"
	case *ssa.Alloc:
		if sv := singleStore(x); sv != nil {
			if u, ok := sv.(*ssa.UnOp); ok && u.Op == token.MUL {
				return m.addr(u.X, d+1)
			}
			return m.keyD(sv, d+1)
		}
		return "local:" + x.Comment
	}
	return "*" + m.keyD(a, d+1)
}

// isVOffsetFunc: a module function from a bgzf.Offset to int64 (BIT-VOFFSET of
// C13 checks that it is File<<16|Block).
func isVOffsetFunc(g *ssa.Function) bool {
	sig := g.Signature
	if sig.Params().Len() != 1 || sig.Results().Len() != 1 {
		return false
	}
	n, ok := sig.Params().At(0).Type().(*types.Named)
	if !ok || n.Obj().Name() != "Offset" {
		return false
	}
	b, ok := sig.Results().At(0).Type().Underlying().(*types.Basic)
	return ok && b.Kind() == types.Int64
}

func newMergeRoles(fn *ssa.Function) *mergeRoles {
	m := &mergeRoles{fn: fn}
	for _, b := range fn.Blocks {
		iff := ifOf(b)
		if iff == nil {
			continue
		}
		bo, ok := iff.Cond.(*ssa.BinOp)
		if !ok || bo.Op != token.LSS {
			continue
		}
		p, ok := bo.X.(*ssa.Phi)
		if !ok {
			continue
		}
		if call, ok := bo.Y.(*ssa.Call); ok {
			if cc, ok := isBuiltinCall(call, "len"); ok && m.isList(cc.Args[0]) {
				m.idx = p
			}
		}
	}
	// write index: the phi n of a returned L[:n+1]
	allInstrs(fn, func(ins ssa.Instruction) {
		ret, ok := ins.(*ssa.Return)
		if !ok || len(ret.Results) != 1 {
			return
		}
		sl, ok := ret.Results[0].(*ssa.Slice)
		if !ok || !m.isList(sl.X) || sl.High == nil {
			return
		}
		if bo, ok := sl.High.(*ssa.BinOp); ok && bo.Op == token.ADD {
			if p, ok := bo.X.(*ssa.Phi); ok && p != m.idx {
				if k, isK := constInt(bo.Y); isK && k == 1 {
					m.w = p
				}
			}
		}
	})
	return m
}

type roleStore struct {
	addr, val string
	ins       *ssa.Store
}

// guardedBy: the block of `at` is dominated by the edge of a comparison that
// establishes  big > small  (or ≥ when orEq), given as role keys.
func (m *mergeRoles) guardedBy(at *ssa.BasicBlock, big, small func(string) bool, orEq bool) bool {
	fn := m.fn
	for _, b := range fn.Blocks {
		iff := ifOf(b)
		if iff == nil {
			continue
		}
		bo, ok := iff.Cond.(*ssa.BinOp)
		if !ok {
			continue
		}
		kx, ky := m.key(bo.X), m.key(bo.Y)
		yes := -1
		switch {
		case (bo.Op == token.GTR || (orEq && bo.Op == token.GEQ)) && big(kx) && small(ky):
			yes = 0
		case (bo.Op == token.LSS || (orEq && bo.Op == token.LEQ)) && small(kx) && big(ky):
			yes = 0
		case (bo.Op == token.LEQ || (orEq && bo.Op == token.LSS)) && big(kx) && small(ky):
			yes = 1
		case (bo.Op == token.GEQ || (orEq && bo.Op == token.GTR)) && small(kx) && big(ky):
			yes = 1
		}
		if yes >= 0 && b.Succs[0] != b.Succs[1] && dominatedByEdge(fn, b, yes, at) {
			return true
		}
	}
	return false
}

func ruleChunkMergeStep(c *Ctx, r *Rep, tier string) {
	rule := "MERGE-STEP"
	for name, fn := range mergeLoopFuncs(c) {
		key := "bgzf/index." + name
		m := newMergeRoles(fn)
		if m.idx == nil {
			for _, ob := range []string{"#begin", "#end-max", "#splice", "#test"} {
				r.Instance(rule, 1)
				r.Fail(rule, key+ob, c.Pos(fn.Pos()), "no loop `for i < len(list)` over the chunk list found: the merge loop is written in a way this rule does not understand (undecided)")
			}
			continue
		}
		var stores []roleStore
		allInstrs(fn, func(ins ssa.Instruction) {
			if st, ok := ins.(*ssa.Store); ok {
				a := m.addr(st.Addr, 0)
				// a store into the list itself, not into a local copy of an element
				root := st.Addr
				for {
					if fa, ok := root.(*ssa.FieldAddr); ok {
						root = fa.X
						continue
					}
					break
				}
				ia, isElem := root.(*ssa.IndexAddr)
				if isElem && m.isList(ia.X) && strings.HasPrefix(a, "L[") {
					stores = append(stores, roleStore{a, m.key(st.Val), st})
				}
			}
		})
		var splice *ssa.Call
		allInstrs(fn, func(ins ssa.Instruction) {
			if call, ok := ins.(*ssa.Call); ok {
				if _, isApp := isBuiltinCall(call, "append"); isApp && m.isList(call) {
					splice = call
				}
			}
		})
		// the accumulated element and the current one, per form
		acc, cur := "L[(i-1)]", "L[i]"
		form := "splice"
		if splice == nil && m.w != nil {
			acc, form = "L[n]", "accumulate"
		}
		// (t) the merge test
		var testBlk *ssa.BasicBlock
		mergeEdge := -1
		{
			r.Instance(rule, 1)
			why := "no comparison of the accumulated chunk's End (" + acc + ".End) with the current chunk's Begin (" + cur + ".Begin) found"
			for _, b := range fn.Blocks {
				iff := ifOf(b)
				if iff == nil {
					continue
				}
				bo, ok := iff.Cond.(*ssa.BinOp)
				if !ok {
					continue
				}
				kx, ky := m.key(bo.X), m.key(bo.Y)
				// a difference on one side is a sum on the other:
				// (cur.Begin − acc.End) ≤ near  ≡  cur.Begin ≤ acc.End + near
				if sub, isSub := bo.X.(*ssa.BinOp); isSub && sub.Op == token.SUB {
					kx, ky = m.key(sub.X), "("+m.key(sub.Y)+"+"+ky+")"
				} else if sub, isSub := bo.Y.(*ssa.BinOp); isSub && sub.Op == token.SUB {
					kx, ky = "("+kx+"+"+m.key(sub.Y)+")", m.key(sub.X)
				}
				if !strings.Contains(kx+ky, ".Begin") {
					continue
				}
				isAcc := func(k string) bool {
					return strings.Contains(k, acc+".End") && !strings.Contains(k, cur+".") && strings.Count(k, "L[") == 1
				}
				isCur := func(k string) bool {
					return strings.Contains(k, cur+".Begin") && strings.Count(k, "L[") == 1
				}
				switch {
				case bo.Op == token.GEQ && isAcc(kx) && isCur(ky), bo.Op == token.LEQ && isCur(kx) && isAcc(ky):
					testBlk, mergeEdge, why = b, 0, ""
				case bo.Op == token.LSS && isAcc(kx) && isCur(ky), bo.Op == token.GTR && isCur(kx) && isAcc(ky):
					testBlk, mergeEdge, why = b, 1, ""
				default:
					why = fmt.Sprintf("the merge test is %s %s %s: it must compare the accumulated chunk's End (%s.End) with the current chunk's Begin (%s.Begin) and merge when End ≥ Begin – with the End of another element chunks that the accumulated one already covers are kept as separate chunks (or chunks that are apart are merged)", kx, bo.Op, ky, acc, cur)
				}
				if testBlk != nil {
					break
				}
			}
			r.Check(why == "", rule, key+"#test", c.Pos(fn.Pos()), form+" form: merge iff "+acc+".End ≥ "+cur+".Begin", why)
		}
		inMerge := func(b *ssa.BasicBlock) bool {
			return testBlk != nil && dominatedByEdge(fn, testBlk, mergeEdge, b)
		}
		inKeep := func(b *ssa.BasicBlock) bool {
			return testBlk != nil && dominatedByEdge(fn, testBlk, 1-mergeEdge, b)
		}
		var beginSt, endSt, other []roleStore
		for _, s := range stores {
			switch {
			case strings.HasSuffix(s.addr, "].Begin"):
				beginSt = append(beginSt, s)
			case strings.HasSuffix(s.addr, "].End"):
				endSt = append(endSt, s)
			default:
				other = append(other, s)
			}
		}
		show := func(ss []roleStore) string {
			var out []string
			for _, s := range ss {
				out = append(out, s.addr+" = "+s.val)
			}
			return "[" + strings.Join(out, "; ") + "]"
		}
		if form == "splice" {
			// (a) Begin of the survivor = Begin of the accumulated element
			r.Instance(rule, 1)
			why := ""
			if len(beginSt) != 1 || beginSt[0].addr != "L[i].Begin" || beginSt[0].val != "L[(i-1)].Begin" || !inMerge(beginSt[0].ins.Block()) {
				why = fmt.Sprintf("assignments of a chunk's Begin: %s (want exactly, in the merge branch: the right chunk takes the left chunk's Begin)", show(beginSt))
			}
			r.Check(why == "", rule, key+"#begin", c.Pos(fn.Pos()), "merged.Begin = left.Begin", why+": positions at the start of the left chunk are lost (or another chunk is altered)")
			// (b) End of the survivor = the larger End
			r.Instance(rule, 1)
			why = ""
			if len(endSt) == 0 {
				why = "the merged chunk never takes the left chunk's End: a left chunk that encloses the right one (nested chunks) is truncated to the right chunk's End and the records in its tail are lost"
			} else if len(endSt) != 1 || endSt[0].addr != "L[i].End" || endSt[0].val != "L[(i-1)].End" || !inMerge(endSt[0].ins.Block()) {
				why = fmt.Sprintf("assignments of a chunk's End: %s (want exactly, in the merge branch: the right chunk takes the left chunk's End when that is larger)", show(endSt))
			} else if !m.guardedBy(endSt[0].ins.Block(), func(k string) bool { return k == "v(L[(i-1)].End)" }, func(k string) bool { return k == "v(L[i].End)" }, true) {
				why = "the End is overwritten without the test 'left.End > right.End' on whole virtual offsets: a right chunk that reaches further than the left one is cut back (or a left chunk ending later in the same block is cut)"
			}
			r.Check(why == "", rule, key+"#end-max", c.Pos(fn.Pos()), "merged.End = max(left.End, right.End)", why)
			// (c) exactly the left element is spliced out, after the update, and the cursor steps back
			r.Instance(rule, 1)
			why = ""
			spliceKey := "none"
			if splice != nil {
				cc, _ := isBuiltinCall(splice, "append")
				spliceKey = "append(" + m.key(cc.Args[0]) + "," + m.key(cc.Args[1]) + ")"
			}
			if spliceKey != "append(L[:(i-1)],L[i:])" {
				got := spliceKey
				why = "the splice is " + got + ", want append(L[:i-1], L[i:]...): exactly the left element goes"
			} else if !inMerge(splice.Block()) || (len(beginSt) == 1 && !instrDominates(beginSt[0].ins, splice)) {
				why = "the splice is not in the merge branch after the survivor was updated"
			} else {
				back := false
				for _, e := range phiClosure(m.idx) {
					if bo, ok := e.(*ssa.BinOp); ok && bo.Op == token.SUB && m.key(bo) == "(i-1)" && inMerge(bo.Block()) {
						back = true
					}
				}
				if !back {
					why = "after the splice the cursor does not step back: the survivor is not compared with its new right neighbour (runs of three or more mergeable chunks stay apart)"
				}
			}
			if len(other) > 0 {
				why += " other writes to the chunk list: " + show(other)
			}
			r.Check(why == "", rule, key+"#splice", c.Pos(fn.Pos()), "the left element, and only it, is removed after the survivor was updated; the cursor steps back", why)
			continue
		}
		if form != "accumulate" {
			continue
		}
		// accumulate form
		// (a) the accumulated Begin is never written; the slot store copies the current element
		r.Instance(rule, 1)
		why := ""
		if len(beginSt) != 0 {
			why = "a chunk's Begin is assigned: " + show(beginSt) + " (the accumulated chunk keeps its Begin; the list is sorted by Begin)"
		}
		r.Check(why == "", rule, key+"#begin", c.Pos(fn.Pos()), "the accumulated chunk keeps its Begin", why)
		// (b) acc.End = max
		r.Instance(rule, 1)
		why = ""
		if len(endSt) == 0 {
			why = "the accumulated chunk never takes the current chunk's End: a current chunk that reaches further is cut off"
		} else if len(endSt) != 1 || endSt[0].addr != "L[n].End" || endSt[0].val != "L[i].End" || !inMerge(endSt[0].ins.Block()) {
			why = "assignments of a chunk's End: " + show(endSt) + " (want exactly, in the merge branch: L[n].End = L[i].End when that is larger)"
		} else if !m.guardedBy(endSt[0].ins.Block(), func(k string) bool { return k == "v(L[i].End)" }, func(k string) bool { return k == "v(L[n].End)" }, true) {
			why = "the accumulated End is overwritten without the test 'current.End > accumulated.End' on whole virtual offsets: an enclosing accumulated chunk is cut back"
		}
		r.Check(why == "", rule, key+"#end-max", c.Pos(fn.Pos()), "accumulated.End = max(accumulated.End, current.End)", why)
		// (c) keep branch: n steps by one and the slot takes the current element; nothing else
		r.Instance(rule, 1)
		why = ""
		okSlot := false
		var rest []roleStore
		for _, s := range other {
			if s.addr == "L[(n+1)]" && s.val == "L[i]" && inKeep(s.ins.Block()) {
				okSlot = true
			} else {
				rest = append(rest, s)
			}
		}
		if !okSlot {
			why = "no store L[n+1] = L[i] in the keep branch: a chunk that is apart from the accumulated one is dropped;"
		}
		if len(rest) > 0 {
			why += " other writes to the chunk list: " + show(rest) + ";"
		}
		stepped := false
		for _, e := range phiClosure(m.w) {
			if bo, ok := e.(*ssa.BinOp); ok && bo.Op == token.ADD && m.key(bo) == "(n+1)" && inKeep(bo.Block()) {
				stepped = true
			}
			if bo, ok := e.(*ssa.BinOp); ok && m.key(bo) != "(n+1)" {
				why += " the write index also becomes " + m.key(bo) + ";"
			}
		}
		if !stepped {
			why += " the write index does not advance in the keep branch;"
		}
		r.Check(why == "", rule, key+"#splice", c.Pos(fn.Pos()), "keep branch: n++ and L[n] = current; result L[:n+1]", why)
	}
	// squash
	{
		fn := c.Func("bgzf/index", "squash")
		m := newMergeRoles(fn)
		r.Instance(rule, 1)
		why := ""
		var beginVal, endVal ssa.Value
		allInstrs(fn, func(ins ssa.Instruction) {
			st, ok := ins.(*ssa.Store)
			if !ok {
				return
			}
			fa, ok := st.Addr.(*ssa.FieldAddr)
			if !ok {
				return
			}
			if ia, ok := fa.X.(*ssa.IndexAddr); ok {
				if al, ok := ia.X.(*ssa.Alloc); ok && strings.Contains(al.Comment, "lit") {
					switch fieldVarOfAddr(fa).Name() {
					case "Begin":
						beginVal = st.Val
					case "End":
						endVal = st.Val
					}
				}
			}
		})
		if beginVal == nil || m.key(beginVal) != "L[0].Begin" {
			why += " the result's Begin is not the first chunk's Begin;"
		}
		acc, _ := endVal.(*ssa.Phi)
		if endVal == nil || acc == nil {
			why += " the result's End is not an accumulated value;"
		} else {
			inAcc := map[*ssa.Phi]bool{}
			var collect func(p *ssa.Phi)
			collect = func(p *ssa.Phi) {
				if inAcc[p] {
					return
				}
				inAcc[p] = true
				for _, e := range p.Edges {
					if q, ok := e.(*ssa.Phi); ok {
						collect(q)
					}
				}
			}
			collect(acc)
			isAccKey := func(v ssa.Value) bool {
				if call, ok := v.(*ssa.Call); ok {
					if g := staticCallee(&call.Call); g != nil && isVOffsetFunc(g) {
						if p, ok := call.Call.Args[0].(*ssa.Phi); ok {
							return inAcc[p]
						}
					}
				}
				return false
			}
			for p := range inAcc {
				for i, e := range p.Edges {
					if q, ok := e.(*ssa.Phi); ok && inAcc[q] {
						continue
					}
					k := m.key(e)
					switch {
					case k == "L[0].End":
					case strings.HasSuffix(k, ".End"):
						pred := p.Block().Preds[i]
						ok := false
						for _, b := range fn.Blocks {
							iff := ifOf(b)
							if iff == nil {
								continue
							}
							bo, isBo := iff.Cond.(*ssa.BinOp)
							if !isBo {
								continue
							}
							yes := -1
							switch {
							case (bo.Op == token.GTR || bo.Op == token.GEQ) && m.key(bo.X) == "v("+k+")" && isAccKey(bo.Y):
								yes = 0
							case (bo.Op == token.LSS || bo.Op == token.LEQ) && isAccKey(bo.X) && m.key(bo.Y) == "v("+k+")":
								yes = 0
							}
							if yes >= 0 && (dominatedByEdge(fn, b, yes, pred) || b == pred && pred.Succs[yes] == p.Block()) {
								ok = true
							}
						}
						if !ok {
							why += " the accumulated End takes " + k + " without the test 'it is larger';"
						}
					default:
						why += " the accumulated End takes " + k + ";"
					}
				}
			}
		}
		r.Check(why == "", rule, "bgzf/index.squash#span", c.Pos(fn.Pos()), "{first Begin, running maximum of End}", why)
	}
	// identity
	{
		fn := c.Func("bgzf/index", "identity")
		r.Instance(rule, 1)
		sr := symExec(fn, map[string]int64{})
		p0 := ""
		if len(fn.Params) > 0 {
			p0 = paramKey(fn.Params[0])
		}
		ok := sr.Undec == "" && len(sr.RetKeys) == 1 && len(sr.Effects) == 0 &&
			(sr.RetKeys[0] == p0 || sr.RetKeys[0] == p0+"[:len("+p0+")]" || sr.RetKeys[0] == p0+"[:]")
		r.Check(ok, rule, "bgzf/index.identity#same", c.Pos(fn.Pos()), "returns its argument untouched", "identity does not return its argument unchanged")
	}
}

// phiClosure: the values that flow into phi p (through phis).
func phiClosure(p *ssa.Phi) []ssa.Value {
	var out []ssa.Value
	seen := map[*ssa.Phi]bool{}
	var walk func(q *ssa.Phi)
	walk = func(q *ssa.Phi) {
		if q == nil || seen[q] {
			return
		}
		seen[q] = true
		for _, e := range q.Edges {
			if r, ok := e.(*ssa.Phi); ok {
				walk(r)
				continue
			}
			out = append(out, e)
			if bo, ok := e.(*ssa.BinOp); ok {
				// i = φ(i, i-1) + 1: the step of a loop goes through its latch phi
				for _, op := range []ssa.Value{bo.X, bo.Y} {
					if r, ok := op.(*ssa.Phi); ok {
						walk(r)
					}
				}
			}
		}
	}
	walk(p)
	return out
}

func init() {
	register(&PropDef{
		ID: "C17", Title: "Chunk merge strategies never lose coverage", Level: "other",
		Rules: []RuleDef{
			{Name: "MERGE-STEP", What: "Adjacent and Compressor (splice form or accumulate form, recognised by roles, not names): the merge test compares the accumulated chunk's End with the current Begin; a merge keeps the accumulated Begin and the larger End (compared as whole virtual offsets), removes exactly one element, writes nothing else; Squash = {first Begin, running maximum of End}; Identity returns its argument", Floor: 10, Run: ruleChunkMergeStep},
			{Name: "RESULT-FROM-LOOP", What: "each merge strategy returns nil or the list its examined loop merged, on every path, and CompressorStrategy returns its merging closure for every threshold: no second implementation, fast path or substitute strategy beside the loop MERGE-STEP proves (added after sixteenth-round seeds C17-o, C17-p)", Floor: 3, Run: ruleResultFromLoop},
			{Name: "NEAR-CMP", What: "the Compressor's threshold is only ever an operand of a comparison: offset + near overflows for thresholds near MaxInt64 and such a Compressor merges nothing (added for a defect of the unchanged tree)", Floor: 1, Run: ruleNearCmp},
			{Name: "STRATEGY-BIND", What: "the exported strategies Identity, Adjacent and Squash are initialised with the functions identity, adjacent and squash that MERGE-STEP examines – not with another value of the same type (added after eighth-round seed C17-h: Adjacent bound to CompressorStrategy(0))", Floor: 3, Run: ruleStrategyBind},
			{Name: "BIT-VOFFSET", What: "every vOffset copy computes File<<16|Block over the whole 48+16 bits (bit domain; shared with C13/C15; under C17 since eighth-round seed C17-g: a mask applied after the shift cuts the file offset to 32 bits and the End comparisons of the strategies go wrong from 4 GiB on)", Floor: 6, Run: ruleVOffset},
			{Name: "SORTED-PRE", What: "every application of a merge strategy is to a chunk list sorted by begin offset", Floor: 5, Run: ruleSortedPre},
			{Name: "CHUNKS-FRESH", What: "the list a Chunks method sorts and merges in place is built in that call, never an alias of the index's storage (added after sixth-round seed C17-f)", Floor: 2, Run: ruleChunksFresh},
		},
		Explanation: "Only the structural necessary conditions: the shape of a merge step (added after a second-round seed for C04 removed the 'larger End' test from Adjacent and nothing reported it), Squash's span, Identity, and the callers' sortedness precondition. A merge that does not keep the larger End loses the tail of an enclosing chunk; one that does not take the left Begin loses its head; a test against another element's End leaves covered chunks apart.",
		NotDecided:  "everything value-level in the statement: that the loops with their aliasing append produce a sorted list covering exactly/at least the input for every input, the Compressor threshold arithmetic, idempotence as such. An abstract interpreter with a slice memory model would be needed; none was built. A merge loop written in a third way (range loop, recursion, a new slice) is reported as not understood.",
	})
}
