// C17: merge strategies – the structural part only.
//
// The input/output relation of the in-place merge loops (order, idempotence,
// exact coverage) is value-level and depends on slice aliasing; it is not
// decided. What is decided is the shape every coverage-preserving merge step
// must have: when two neighbours are merged the survivor takes the left
// neighbour's Begin and the larger of the two Ends, exactly the left element is
// spliced out, and nothing else writes to the chunks; Squash returns the first
// Begin and a running maximum of the Ends; Identity returns its argument; every
// caller hands the strategies a list sorted by begin offset (SORTED-PRE, C04).
package main

import (
	"fmt"
	"go/token"
	"strings"

	"golang.org/x/tools/go/ssa"
)

func mergeLoopFuncs(c *Ctx) map[string]*ssa.Function {
	out := map[string]*ssa.Function{"adjacent": c.Func("bgzf/index", "adjacent")}
	cs := c.Func("bgzf/index", "CompressorStrategy")
	if len(cs.AnonFuncs) != 1 {
		unresolved("bgzf/index.CompressorStrategy: %d function literals", len(cs.AnonFuncs))
	}
	out["CompressorStrategy$1"] = cs.AnonFuncs[0]
	return out
}

func ruleChunkMergeStep(c *Ctx, r *Rep, tier string) {
	rule := "MERGE-STEP"
	for name, fn := range mergeLoopFuncs(c) {
		effs := effectsOf(fn)
		key := "bgzf/index." + name
		var beginSt, endSt []eff
		var other []string
		for _, e := range effs {
			if e.Kind != "store" {
				continue
			}
			switch {
			case strings.HasSuffix(e.Addr, "].Begin"):
				beginSt = append(beginSt, e)
			case strings.HasSuffix(e.Addr, "].End"):
				endSt = append(endSt, e)
			case strings.Contains(e.Addr, "chunks[") && e.Addr != e.Val:
				other = append(other, e.String())
			}
		}
		// (a) Begin of the survivor = Begin of the left neighbour
		r.Instance(rule, 1)
		why := ""
		if len(beginSt) != 1 || beginSt[0].Val != "leftChunk.Begin" || !strings.HasSuffix(beginSt[0].Addr, "[phi:c].Begin") {
			why = fmt.Sprintf("assignments of a chunk's Begin: %v (want exactly: the right chunk takes the left chunk's Begin)", beginSt)
		}
		r.Check(why == "", rule, key+"#begin", c.Pos(fn.Pos()), "merged.Begin = left.Begin", why+": positions at the start of the left chunk are lost (or another chunk is altered)")
		// (b) End of the survivor = the larger End
		r.Instance(rule, 1)
		why = ""
		if len(endSt) != 1 || endSt[0].Val != "leftChunk.End" || !strings.HasSuffix(endSt[0].Addr, "[phi:c].End") {
			why = fmt.Sprintf("assignments of a chunk's End: %v (want exactly: the right chunk takes the left chunk's End when that is larger)", endSt)
		} else {
			st := endSt[0].Ins
			guarded := false
			for _, b := range fn.Blocks {
				iff := ifOf(b)
				if iff == nil {
					continue
				}
				bo, ok := iff.Cond.(*ssa.BinOp)
				if !ok {
					continue
				}
				kx, ky := symKey(bo.X), symKey(bo.Y)
				left := func(k string) bool { return k == "vOffset(leftChunk.End)" }
				right := func(k string) bool { return strings.HasPrefix(k, "vOffset(") && strings.HasSuffix(k, "[phi:c].End)") }
				yes := -1
				switch {
				case (bo.Op == token.GTR || bo.Op == token.GEQ) && left(kx) && right(ky):
					yes = 0
				case (bo.Op == token.LSS || bo.Op == token.LEQ) && right(kx) && left(ky):
					yes = 0
				case (bo.Op == token.LSS || bo.Op == token.LEQ) && left(kx) && right(ky):
					yes = 1
				case (bo.Op == token.GTR || bo.Op == token.GEQ) && right(kx) && left(ky):
					yes = 1
				}
				if yes >= 0 && dominatedByEdge(fn, b, yes, st.Block()) {
					guarded = true
				}
			}
			if !guarded {
				why = "the End is overwritten without the test 'left.End > right.End': a right chunk that reaches further than the left one is cut back"
			}
		}
		if len(endSt) == 0 {
			why = "the merged chunk never takes the left chunk's End: a left chunk that encloses the right one (nested chunks, after Squash/Compressor on bins) is truncated to the right chunk's End and the records in its tail are lost"
		}
		r.Check(why == "", rule, key+"#end-max", c.Pos(fn.Pos()), "merged.End = max(left.End, right.End)", why)
		// (c) exactly the left element is spliced out, in the merge branch, and the index steps back
		r.Instance(rule, 1)
		why = ""
		var splice *ssa.Call
		allInstrs(fn, func(ins ssa.Instruction) {
			if call, ok := ins.(*ssa.Call); ok {
				if _, isApp := isBuiltinCall(call, "append"); isApp && symKey(call) == "append(phi:chunks[:(phi:c-1)],phi:chunks[phi:c:])" {
					splice = call
				}
			}
		})
		if splice == nil {
			why = "no splice append(chunks[:c-1], chunks[c:]...) found"
		} else if len(beginSt) == 1 && (!instrDominates(beginSt[0].Ins, splice) || beginSt[0].Ins.Block() != splice.Block() && !beginSt[0].Ins.Block().Dominates(splice.Block())) {
			why = "the splice is not in the merge branch after the survivor was updated"
		}
		if len(other) > 0 {
			why += fmt.Sprintf(" other writes to the chunk list: %v", other)
		}
		r.Check(why == "", rule, key+"#splice", c.Pos(fn.Pos()), "the left element, and only it, is removed after the survivor was updated", why)
	}
	// squash
	{
		fn := c.Func("bgzf/index", "squash")
		effs := effectsOf(fn)
		r.Instance(rule, 1)
		why := ""
		if hasEff(effs, "store", "&local:slicelit[0].Begin", "chunks[0].Begin") == nil {
			why += " the result's Begin is not chunks[0].Begin;"
		}
		if hasEff(effs, "store", "&local:slicelit[0].End", "phi:right") == nil {
			why += " the result's End is not the accumulated End;"
		}
		// right: running maximum
		var right *ssa.Phi
		allInstrs(fn, func(ins ssa.Instruction) {
			if p, ok := ins.(*ssa.Phi); ok && p.Comment == "right" && right == nil {
				right = p
			}
		})
		if right == nil {
			why += " accumulator 'right' not found;"
		} else {
			// every phi of the accumulator: edges are the initial chunks[0].End, the accumulator itself, or an element's End under 'element.End > right'
			seen := map[*ssa.Phi]bool{}
			var walk func(p *ssa.Phi)
			walk = func(p *ssa.Phi) {
				if seen[p] {
					return
				}
				seen[p] = true
				for i, e := range p.Edges {
					switch x := e.(type) {
					case *ssa.Phi:
						if x.Comment == "right" {
							walk(x)
							continue
						}
					}
					k := symKey(e)
					switch {
					case k == "chunks[0].End":
					case strings.HasSuffix(k, ".End"):
						pred := p.Block().Preds[i]
						ok := false
						for _, b := range fn.Blocks {
							iff := ifOf(b)
							if iff == nil {
								continue
							}
							bo, isBo := iff.Cond.(*ssa.BinOp)
							if !isBo || (bo.Op != token.GTR && bo.Op != token.GEQ) {
								continue
							}
							if symKey(bo.X) == "vOffset("+k+")" && strings.HasPrefix(symKey(bo.Y), "vOffset(phi:right") && (dominatedByEdge(fn, b, 0, pred) || b == pred && pred.Succs[0] == p.Block()) {
								ok = true
							}
						}
						if !ok {
							why += " the accumulated End takes " + k + " without the test 'it is larger';"
						}
					default:
						why += " the accumulated End takes " + k + ";"
					}
				}
			}
			walk(right)
		}
		r.Check(why == "", rule, "bgzf/index.squash#span", c.Pos(fn.Pos()), "{chunks[0].Begin, running maximum of End}", why)
	}
	// identity
	{
		fn := c.Func("bgzf/index", "identity")
		r.Instance(rule, 1)
		sr := symExec(fn, map[string]int64{})
		ok := sr.Undec == "" && len(sr.RetKeys) == 1 && len(sr.Effects) == 0 &&
			(sr.RetKeys[0] == "chunks" || sr.RetKeys[0] == "chunks[:len(chunks)]" || sr.RetKeys[0] == "chunks[:]")
		r.Check(ok, rule, "bgzf/index.identity#same", c.Pos(fn.Pos()), "returns its argument untouched", "identity does not return its argument unchanged")
	}
}

func init() {
	register(&PropDef{
		ID: "C17", Title: "Chunk merge strategies never lose coverage", Level: "other",
		Rules: []RuleDef{
			{Name: "MERGE-STEP", What: "Adjacent and Compressor: a merge gives the survivor the left Begin and the larger End, removes exactly the left element, writes nothing else; Squash = {first Begin, running maximum of End}; Identity returns its argument", Floor: 8, Run: ruleChunkMergeStep},
			{Name: "SORTED-PRE", What: "every application of a merge strategy is to a chunk list sorted by begin offset", Floor: 5, Run: ruleSortedPre},
		},
		Explanation: "Only the structural necessary conditions: the shape of a merge step (added after a second-round seed for C04 removed the 'larger End' test from Adjacent and nothing reported it), Squash's span, Identity, and the callers' sortedness precondition. A merge that does not keep the larger End loses the tail of an enclosing chunk; one that does not take the left Begin loses its head.",
		NotDecided:  "everything value-level in the statement: that the in-place loops with their aliasing append produce a sorted list covering exactly/at least the input for every input, pairwise separation, the Compressor threshold, idempotence. An abstract interpreter with a slice memory model would be needed; none was built.",
	})
}
