// Engine E7: ownership of blocks between reader and caches.
package main

import (
	"fmt"
	"go/token"
	"go/types"

	"golang.org/x/tools/go/ssa"
)

// cacheImpl is one discovered implementation of the Cache interface.
type cacheImpl struct {
	named *types.Named
	table *types.Var // map-typed field, nil for wrappers
	inner *types.Var // embedded/held Cache interface field for wrappers
	get   *ssa.Function
	put   *ssa.Function
	peek  *ssa.Function
}

type cacheCfg struct {
	implPkg   string // package holding implementations
	ifacePkg  string
	ifaceName string
}

func discoverCaches(c *Ctx, cfg cacheCfg) []cacheImpl {
	iface, ok := c.Named(cfg.ifacePkg, cfg.ifaceName).Underlying().(*types.Interface)
	if !ok {
		unresolved("%s.%s is not an interface", cfg.ifacePkg, cfg.ifaceName)
	}
	p := c.ByPath[cfg.implPkg]
	if p == nil {
		unresolved("package %s", cfg.implPkg)
	}
	var out []cacheImpl
	sc := p.Types.Scope()
	for _, n := range sc.Names() {
		tn, ok := sc.Lookup(n).(*types.TypeName)
		if !ok {
			continue
		}
		named, ok := tn.Type().(*types.Named)
		if !ok {
			continue
		}
		st, ok := named.Underlying().(*types.Struct)
		if !ok || !types.Implements(types.NewPointer(named), iface) {
			continue
		}
		ci := cacheImpl{named: named}
		for i := 0; i < st.NumFields(); i++ {
			f := st.Field(i)
			if _, isMap := f.Type().Underlying().(*types.Map); isMap && ci.table == nil {
				ci.table = f
			}
			if fi, isI := f.Type().Underlying().(*types.Interface); isI && types.Implements(f.Type(), iface) && fi.NumMethods() > 0 {
				ci.inner = f
			}
		}
		ci.get = c.FuncOpt(cfg.implPkg, "(*"+n+").Get")
		ci.put = c.FuncOpt(cfg.implPkg, "(*"+n+").Put")
		ci.peek = c.FuncOpt(cfg.implPkg, "(*"+n+").Peek")
		out = append(out, ci)
	}
	return out
}

// loadsField: v is a load of recv.field.
func loadsField(v ssa.Value, f *types.Var) bool {
	fv, _ := loadedField(v)
	return fv != nil && fv == f
}

// isDeleteOn: ins removes an entry from the map field f – the builtin delete,
// or a call of a function whose summary is "deletes from its map parameter on
// every path".
func isDeleteOn(ins ssa.Instruction, f *types.Var) bool {
	call, ok := ins.(*ssa.Call)
	if !ok {
		return false
	}
	if cc, ok := isBuiltinCall(call, "delete"); ok {
		return loadsField(cc.Args[0], f)
	}
	g := staticCallee(&call.Call)
	if g == nil {
		return false
	}
	for i, a := range call.Call.Args {
		if loadsField(a, f) && deletesFromParamAlways(g, i, 0) {
			return true
		}
	}
	return false
}

func deletesFromParamAlways(g *ssa.Function, idx, depth int) bool {
	if g.Blocks == nil || depth > 2 || idx >= len(g.Params) {
		return false
	}
	p := g.Params[idx]
	isDel := func(ins ssa.Instruction) bool {
		call, ok := ins.(*ssa.Call)
		if !ok {
			return false
		}
		if cc, ok := isBuiltinCall(call, "delete"); ok {
			return cc.Args[0] == p
		}
		if h := staticCallee(&call.Call); h != nil {
			for i, a := range call.Call.Args {
				if a == p && deletesFromParamAlways(h, i, depth+1) {
					return true
				}
			}
		}
		return false
	}
	_, ok := mustPass(entryLoc(g), isReturn, isDel, nil)
	return ok
}

// ruleGetHandsOver (OWN-2): on every path of Get that returns a block taken
// from the table, the table entry is deleted.
func ruleGetHandsOver(c *Ctx, r *Rep, rule string, impls []cacheImpl) {
	for _, ci := range impls {
		name := ci.named.Obj().Name()
		if ci.get == nil {
			r.Fail(rule, name+".Get#missing", "-", "implementation has no Get method: undecided")
			continue
		}
		r.Instance(rule, 1)
		fn := ci.get
		if ci.table == nil {
			// wrapper: every non-nil result must be the result of the inner cache's Get
			ok := true
			n := 0
			allInstrs(fn, func(ins ssa.Instruction) {
				ret, isRet := ins.(*ssa.Return)
				if !isRet {
					return
				}
				n++
				v := strip(retValue(ret, 0))
				if isNilConst(v) {
					return
				}
				call, isCall := v.(*ssa.Call)
				if !isCall || !call.Call.IsInvoke() || call.Call.Method.Name() != "Get" {
					ok = false
				}
			})
			r.Check(ok && n > 0, rule, name+".Get#wrapper", c.Pos(fn.Pos()), "returns the wrapped cache's Get result unchanged: inherits its hand-over", "wrapper's Get returns something other than the wrapped cache's Get result")
			continue
		}
		// lookups on the table
		var lookups []ssa.Instruction
		allInstrs(fn, func(ins ssa.Instruction) {
			if l, ok := ins.(*ssa.Lookup); ok && loadsField(l.X, ci.table) {
				lookups = append(lookups, ins)
			}
		})
		if len(lookups) == 0 {
			r.Fail(rule, name+".Get#no-lookup", c.Pos(fn.Pos()), "Get does not look its table up: undecided")
			continue
		}
		for _, lk := range lookups {
			isDel := func(ins ssa.Instruction) bool { return isDeleteOn(ins, ci.table) }
			nonNilRet := func(ins ssa.Instruction) bool {
				ret, ok := ins.(*ssa.Return)
				return ok && len(ret.Results) > 0 && !isNilConst(retValue(ret, 0))
			}
			key := name + ".Get#hand-over"
			if bad, ok := mustPass(locOf(lk), nonNilRet, isDel, nil); !ok {
				r.Fail(rule, key, c.Pos(bad.Pos()), fmt.Sprintf("a path of %s.Get returns a block found in the table without deleting its entry: the reader will recycle the block's buffer while the cache still maps its old base (Cache contract: \"The returned Block must be removed from the Cache\")", name))
			} else {
				r.Pass(rule, key, c.Pos(lk.Pos()), "every path returning a found block deletes the table entry first")
			}
		}
	}
}

// fullTest describes an If comparing len(table) with a capacity field.
// fullEdge is the successor index taken when the table is full (len ≥ cap).
func fullTest(i *ssa.If, table *types.Var) (fullEdge int, ok bool) {
	bo, isB := i.Cond.(*ssa.BinOp)
	if !isB {
		return 0, false
	}
	isLen := func(v ssa.Value) bool {
		call, ok := strip(v).(*ssa.Call)
		if !ok {
			return false
		}
		cc, ok := isBuiltinCall(call, "len")
		return ok && loadsField(cc.Args[0], table)
	}
	isCap := func(v ssa.Value) bool {
		f, _ := loadedField(v)
		if f == nil {
			return false
		}
		b, ok := f.Type().Underlying().(*types.Basic)
		return ok && b.Info()&types.IsInteger != 0
	}
	op := bo.Op
	switch {
	case isLen(bo.X) && isCap(bo.Y):
	case isLen(bo.Y) && isCap(bo.X):
		switch op { // mirror
		case token.LSS:
			op = token.GTR
		case token.GTR:
			op = token.LSS
		case token.LEQ:
			op = token.GEQ
		case token.GEQ:
			op = token.LEQ
		}
	default:
		return 0, false
	}
	switch op {
	case token.EQL, token.GEQ: // len == cap / len >= cap: true edge = full
		return 0, true
	case token.NEQ, token.LSS: // len != cap / len < cap: false edge = full
		return 1, true
	}
	// len > cap / len <= cap do not separate "full" from "room left"
	return 0, false
}

// rulePutCapacity (CACHE-PUT-CAP / CACHE-PUT-REFUSE).
func rulePutCapacity(c *Ctx, r *Rep, ruleCap, ruleRefuse string, impls []cacheImpl) {
	for _, ci := range impls {
		name := ci.named.Obj().Name()
		if ci.put == nil {
			r.Fail(ruleCap, name+".Put#missing", "-", "implementation has no Put method: undecided")
			continue
		}
		fn := ci.put
		if ci.table == nil {
			// wrapper: passes its argument on and returns the inner results
			r.Instance(ruleCap, 1)
			ok := true
			var inner *ssa.Call
			allInstrs(fn, func(ins ssa.Instruction) {
				if call, isCall := ins.(*ssa.Call); isCall && call.Call.IsInvoke() && call.Call.Method.Name() == "Put" {
					inner = call
				}
			})
			if inner == nil || len(inner.Call.Args) != 1 || origin(inner.Call.Args[0]) != fn.Params[1] {
				ok = false
			}
			allInstrs(fn, func(ins ssa.Instruction) {
				if ret, isRet := ins.(*ssa.Return); isRet && inner != nil {
					for k := 0; k < 2 && k < len(ret.Results); k++ {
						e, isE := strip(retValue(ret, k)).(*ssa.Extract)
						if !isE || e.Tuple != inner || e.Index != k {
							ok = false
						}
					}
				}
			})
			r.Check(ok, ruleCap, name+".Put#wrapper", c.Pos(fn.Pos()), "passes the block to the wrapped cache and returns its results unchanged", "wrapper's Put does not return exactly the wrapped cache's (evicted, retained)")
			continue
		}
		var inserts []ssa.Instruction
		var fullIfs []*ssa.If
		fullEdgeOf := map[*ssa.BasicBlock]int{}
		allInstrs(fn, func(ins ssa.Instruction) {
			if mu, ok := ins.(*ssa.MapUpdate); ok && loadsField(mu.Map, ci.table) {
				inserts = append(inserts, ins)
			}
			if i, ok := ins.(*ssa.If); ok {
				if k, ok := fullTest(i, ci.table); ok {
					fullIfs = append(fullIfs, i)
					fullEdgeOf[i.Block()] = k
				}
			}
		})
		if len(inserts) == 0 {
			r.Fail(ruleCap, name+".Put#no-insert", c.Pos(fn.Pos()), "Put never inserts into its table: undecided")
			continue
		}
		isDel := func(ins ssa.Instruction) bool { return isDeleteOn(ins, ci.table) }
		// CAP: reaching an insertion over a "full" edge requires an eviction first;
		// and an insertion not preceded by any capacity test at all is unbounded.
		for _, insr := range inserts {
			r.Instance(ruleCap, 1)
			key := name + ".Put#insert-bounded"
			// (a) every path entry→insert passes some capacity test
			isFullIf := func(x ssa.Instruction) bool {
				i, ok := x.(*ssa.If)
				if !ok {
					return false
				}
				_, ok = fullEdgeOf[i.Block()]
				return ok && ifOf(i.Block()) == i
			}
			target := func(x ssa.Instruction) bool { return x == insr }
			if _, ok := mustPass(entryLoc(fn), target, isFullIf, nil); !ok {
				r.Fail(ruleCap, key, c.Pos(insr.Pos()), name+".Put can insert into the table on a path that never compares len(table) with the capacity (==, >=, <, != only): the cache can grow beyond its capacity")
				continue
			}
			// (b) from a full edge, insert only after an eviction
			bad := false
			for _, fi := range fullIfs {
				fb := fi.Block().Succs[fullEdgeOf[fi.Block()]]
				start := Loc{fb, -1}
				if _, reach := pathToNonEmpty(start, target, isDel, ci.table); reach {
					bad = true
				}
			}
			if bad {
				r.Fail(ruleCap, key, c.Pos(insr.Pos()), name+".Put inserts on a path where len(table) has reached the capacity and nothing was evicted: the cache holds more blocks than its capacity")
			} else {
				r.Pass(ruleCap, key, c.Pos(insr.Pos()), "insertion only with room left or after an eviction")
			}
		}
		// REFUSE: on the full edge an eviction or insertion requires the used==true edge;
		// other returns give (b, false).
		r.Instance(ruleRefuse, 1)
		blk := fn.Params[1]
		usedEdge := func(from, to *ssa.BasicBlock) (isUsedIf bool, trueEdge bool) {
			i := ifOf(from)
			if i == nil {
				return false, false
			}
			cond := i.Cond
			neg := false
			if u, ok := cond.(*ssa.UnOp); ok && u.Op == token.NOT {
				cond, neg = u.X, true
			}
			call, ok := strip(cond).(*ssa.Call)
			if !ok || !call.Call.IsInvoke() || call.Call.Method.Name() != "Used" || origin(call.Call.Value) != blk {
				return false, false
			}
			k := 0
			if neg {
				k = 1
			}
			return true, from.Succs[k] == to
		}
		notUsedTrue := func(from, to *ssa.BasicBlock) bool {
			is, tr := usedEdge(from, to)
			return !(is && tr)
		}
		key := name + ".Put#refuse-unused-when-full"
		why := ""
		for _, fi := range fullIfs {
			fb := fi.Block().Succs[fullEdgeOf[fi.Block()]]
			start := Loc{fb, -1}
			mutate := func(x ssa.Instruction) bool {
				if isDel(x) {
					return true
				}
				mu, ok := x.(*ssa.MapUpdate)
				return ok && loadsField(mu.Map, ci.table)
			}
			if bad, reach := pathTo(start, mutate, nil, notUsedTrue); reach {
				why += fmt.Sprintf(" with the table full, the eviction/insertion at %s is reachable without the block having been tested as used;", c.Pos(bad.Pos()))
			}
			badRet := func(x ssa.Instruction) bool {
				ret, ok := x.(*ssa.Return)
				if !ok || len(ret.Results) != 2 {
					return false
				}
				cst, isC := strip(retValue(ret, 1)).(*ssa.Const)
				return !(origin(retValue(ret, 0)) == blk && isC && cst.Value != nil && cst.Value.String() == "false")
			}
			if bad, reach := pathTo(start, badRet, nil, notUsedTrue); reach {
				why += fmt.Sprintf(" the return at %s on the full/unused path does not hand the block back as (b, false);", c.Pos(bad.Pos()))
			}
		}
		if len(fullIfs) == 0 {
			why = " no capacity test found"
		}
		r.Check(why == "", ruleRefuse, key, c.Pos(fn.Pos()), "full ∧ unused ⇒ no eviction, no insertion, returns (b,false)", name+".Put:"+why)
	}
}

// pathToNonEmpty is pathTo for paths on which the map field `table` is known to
// be non-empty at `from` (len(table) == cap with cap ≥ 1 – constructors refuse
// capacities below 1) and nothing has been deleted since (deletions are the
// barrier): the first `next` of a `range table` loop entered on such a path
// yields an element, so its exhausted edge is infeasible. State = (block,
// iterator that is still fresh).
func pathToNonEmpty(from Loc, target, barrier func(ssa.Instruction) bool, table *types.Var) (ssa.Instruction, bool) {
	type st struct {
		b     *ssa.BasicBlock
		fresh ssa.Value
	}
	type item struct {
		st
		i int
	}
	seen := map[st]bool{}
	work := []item{{st{from.B, nil}, from.I + 1}}
	for len(work) > 0 {
		it := work[len(work)-1]
		work = work[:len(work)-1]
		fresh := it.fresh
		stopped := false
		var exhaustedBlocked *ssa.Next
		for i := it.i; i < len(it.b.Instrs); i++ {
			ins := it.b.Instrs[i]
			if target(ins) {
				return ins, true
			}
			if barrier(ins) {
				stopped = true
				break
			}
			if rg, ok := ins.(*ssa.Range); ok && loadsField(rg.X, table) {
				fresh = rg
			}
			if nx, ok := ins.(*ssa.Next); ok {
				if nx.Iter == fresh && fresh != nil {
					exhaustedBlocked = nx
				}
				if nx.Iter == fresh {
					fresh = nil
				}
			}
		}
		if stopped {
			continue
		}
		for k, s := range it.b.Succs {
			if exhaustedBlocked != nil {
				// block the edge taken when extract #0 (ok) is false
				if i := ifOf(it.b); i != nil {
					if e, ok := i.Cond.(*ssa.Extract); ok && e.Tuple == exhaustedBlocked && e.Index == 0 && k == 1 {
						continue
					}
				}
			}
			n := st{s, fresh}
			if !seen[n] {
				seen[n] = true
				work = append(work, item{n, 0})
			}
		}
	}
	return nil, false
}
