// C05, second part: rules added after seeded changes C05-c and C05-d were
// missed by the first set.
package main

import (
	"fmt"
	"go/token"
	"go/types"

	"golang.org/x/tools/go/ssa"
)

// ruleLenExact (LEN-EXACT): the buffer bam.newBuffer hands to the record decoder
// holds exactly block_size bytes on every path: every assignment of buffer.data
// after the length prefix is a slice [:size] or make([]byte, size). A decoder
// that is given fewer bytes than the record has reads its later fields from
// nowhere (unexpected EOF for records that are merely long).
func ruleLenExact(c *Ctx, r *Rep, tier string) {
	rule := "LEN-EXACT"
	fn := c.Func("bam", "newBuffer")
	dataF := c.Field("bam", "buffer", "data")
	// size: the value tested "< 0"
	var size ssa.Value
	allInstrs(fn, func(ins ssa.Instruction) {
		if bo, ok := ins.(*ssa.BinOp); ok && bo.Op == token.LSS && size == nil {
			if k, isK := constInt(bo.Y); isK && k == 0 {
				if _, isInt := bo.X.Type().Underlying().(*types.Basic); isInt {
					size = bo.X
				}
			}
		}
	})
	if size == nil {
		unresolved("bam.newBuffer: block size value not found")
	}
	n := 0
	allInstrs(fn, func(ins ssa.Instruction) {
		st, ok := ins.(*ssa.Store)
		if !ok {
			return
		}
		fa, ok := st.Addr.(*ssa.FieldAddr)
		if !ok || fieldVarOfAddr(fa) != dataF {
			return
		}
		n++
		r.Instance(rule, 1)
		key := fmt.Sprintf("bam.newBuffer#data~%d", n)
		why := ""
		switch v := st.Val.(type) {
		case *ssa.Slice:
			if k, isK := constInt(v.High); v.High != nil && isK && k == 4 && !instrDominates(defInstr(size), st) {
				// the four bytes of the length prefix itself
			} else if v.High == nil || strip(v.High) != strip(size) || v.Low != nil {
				why = fmt.Sprintf("buffer.data = %s is not cut to the block size %s", symKey(v), symKey(size))
			}
		case *ssa.MakeSlice:
			if strip(v.Len) != strip(size) {
				why = fmt.Sprintf("buffer.data = %s is not made with the block size %s", symKey(v), symKey(size))
			}
		default:
			why = "buffer.data = " + symKey(st.Val)
		}
		r.Check(why == "", rule, key, c.Pos(st.Pos()), "exactly block_size bytes (or the 4-byte prefix before the size is known)", why+": the decoder is handed a buffer that does not hold the whole record")
	})
	// and the count ReadFull returned is compared with that size
	r.Instance(rule, 1)
	ok := false
	allInstrs(fn, func(ins ssa.Instruction) {
		if bo, isBo := ins.(*ssa.BinOp); isBo && bo.Op == token.NEQ && (strip(bo.Y) == strip(size) || strip(bo.X) == strip(size)) {
			ok = true
		}
	})
	r.Check(ok, rule, "bam.newBuffer#count-vs-size", c.Pos(fn.Pos()), "bytes read compared with block_size", "the number of bytes read is not compared with block_size")
	if n < 2 {
		r.Instance(rule, 1)
		r.Fail(rule, "bam.newBuffer#data-sites", c.Pos(fn.Pos()), fmt.Sprintf("%d assignments of buffer.data found, want at least 2", n))
	}
}

// ruleRefIndep (REF-INDEP): in bam.Reader.Read the reference and the mate
// reference are decoded independently: the store of rec.MateRef from the
// header's list must not sit under a test of the read's own reference id alone
// (and vice versa). A read without a reference may well have a placed mate.
func ruleRefIndep(c *Ctx, r *Rep, tier string) {
	rule := "REF-INDEP"
	fn := c.Func("bam", "(*Reader).Read")
	type site struct {
		st  *ssa.Store
		idx ssa.Value
	}
	find := func(field string) []site {
		var out []site
		allInstrs(fn, func(ins ssa.Instruction) {
			st, ok := ins.(*ssa.Store)
			if !ok {
				return
			}
			fa, ok := st.Addr.(*ssa.FieldAddr)
			if !ok || fieldVarOfAddr(fa).Name() != field {
				return
			}
			if u, ok := st.Val.(*ssa.UnOp); ok && u.Op == token.MUL {
				if ia, ok := u.X.(*ssa.IndexAddr); ok {
					out = append(out, site{st, strip(ia.Index)})
				}
			}
		})
		return out
	}
	refs, mates := find("Ref"), find("MateRef")
	if len(refs) == 0 || len(mates) == 0 {
		unresolved("bam.(*Reader).Read: stores of Ref/MateRef from the header list not found (%d, %d)", len(refs), len(mates))
	}
	baseOf := func(v ssa.Value) ssa.Value {
		for {
			switch x := v.(type) {
			case *ssa.Convert:
				v = x.X
				continue
			case *ssa.ChangeType:
				v = x.X
				continue
			}
			return v
		}
	}
	mentions := func(cond ssa.Value, id ssa.Value) bool {
		bo, ok := cond.(*ssa.BinOp)
		if !ok {
			return false
		}
		return baseOf(bo.X) == baseOf(id) || baseOf(bo.Y) == baseOf(id)
	}
	check := func(s site, own, other ssa.Value, what, otherWhat string) {
		r.Instance(rule, 1)
		key := "bam.(*Reader).Read#" + what
		why := ""
		for _, b := range fn.Blocks {
			iff := ifOf(b)
			if iff == nil || !mentions(iff.Cond, other) || mentions(iff.Cond, own) {
				continue
			}
			for k := 0; k < 2; k++ {
				if dominatedByEdge(fn, b, k, s.st.Block()) {
					why = fmt.Sprintf("%s is assigned only on one side of the test of %s alone at %s: a record whose %s is unset (-1) loses its %s", what, otherWhat, c.Pos(iff.Pos()), otherWhat, what)
				}
			}
		}
		r.Check(why == "", rule, key, c.Pos(s.st.Pos()), what+" is decoded whatever the value of "+otherWhat, why)
	}
	check(mates[0], mates[0].idx, refs[0].idx, "MateRef", "reference id")
	check(refs[0], refs[0].idx, mates[0].idx, "Ref", "mate reference id")
}
