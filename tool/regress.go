// Regression self-test of the thorough tier: every `fixed:` line of
// known_findings.txt names a commit of /repo that repaired a genuine defect and
// the rule that reports it. The tree as it was before that commit is taken from
// /repo's history, analysed in a separate process, and the named rule must
// report: "reports the violation again if it ever returns". Evidence about the
// checker, never part of the verdict on /repo; skipped when /repo has no
// history (or the commit is not in it).
package main

import (
	"bytes"
	"fmt"
	"os"
	"os/exec"
	"path/filepath"
	"regexp"
	"sort"
	"strings"
	"sync"
)

type regressResult struct {
	Commit   string `json:"commit"`
	Rules    string `json:"rules_named,omitempty"`
	Outcome  string `json:"outcome"` // redetected | not-redetected | skipped
	Reported string `json:"reported,omitempty"`
}

var ruleTokenRE = regexp.MustCompile(`\b([A-Z][A-Z0-9]+(?:-[A-Z0-9]+)+|[WR][0-9])\b`)

// fixRegression: for the fixed: lines whose first property is propID.
func fixRegression(exe, root, repo, propID string) (string, []regressResult) {
	_, fixed, err := loadKnown(filepath.Join(root, "known_findings.txt"))
	if err != nil || len(fixed) == 0 {
		return "no fixed: lines", nil
	}
	type job struct {
		commit string
		rules  []string
	}
	var jobs []job
	seen := map[string]bool{}
	for _, ln := range fixed {
		f := strings.Fields(ln)
		if len(f) < 3 || f[1] != "property="+propID {
			continue
		}
		commit := f[2]
		if seen[commit] {
			continue
		}
		seen[commit] = true
		var rules []string
		rs := map[string]bool{}
		for _, m := range ruleTokenRE.FindAllString(ln, -1) {
			if !rs[m] && registryHasRule(propID, m) {
				rs[m] = true
				rules = append(rules, m)
			}
		}
		sort.Strings(rules)
		jobs = append(jobs, job{commit, rules})
	}
	if len(jobs) == 0 {
		return "no repaired defect recorded for this property", nil
	}
	results := make([]regressResult, len(jobs))
	sem := make(chan struct{}, 4)
	var wg sync.WaitGroup
	for i, j := range jobs {
		wg.Add(1)
		go func(i int, j job) {
			defer wg.Done()
			sem <- struct{}{}
			defer func() { <-sem }()
			res := regressResult{Commit: j.commit, Rules: strings.Join(j.rules, " ")}
			defer func() { results[i] = res }()
			dir, err := os.MkdirTemp("", "htsverif-reg-")
			if err != nil {
				res.Outcome, res.Reported = "skipped", err.Error()
				return
			}
			defer os.RemoveAll(dir)
			// the tree before the repair: .go files, go.mod, go.sum
			ar := exec.Command("git", "-C", repo, "archive", "--format=tar", j.commit+"~1")
			tx := exec.Command("tar", "-x", "-C", dir, "--wildcards", "--exclude=*_test.go", "--exclude=testdata", "*.go", "go.mod", "go.sum")
			pipe, err := ar.StdoutPipe()
			if err != nil {
				res.Outcome, res.Reported = "skipped", err.Error()
				return
			}
			tx.Stdin = pipe
			var eb bytes.Buffer
			ar.Stderr = &eb
			tx.Stderr = &eb
			if err := tx.Start(); err != nil {
				res.Outcome, res.Reported = "skipped", err.Error()
				return
			}
			errA := ar.Run()
			errT := tx.Wait()
			if errA != nil || errT != nil {
				res.Outcome, res.Reported = "skipped", "history not available: "+firstLine(eb.String())
				return
			}
			an := exec.Command(exe, "analyse-variant", propID, dir)
			an.Env = append(os.Environ(), "VERIF_ROOT="+root)
			var buf bytes.Buffer
			an.Stdout = &buf
			an.Stderr = &buf
			runErr := an.Run()
			var rep []string
			hit := false
			for _, ln := range strings.Split(buf.String(), "\n") {
				if !strings.HasPrefix(ln, "NEWFAIL ") {
					continue
				}
				ln = strings.TrimPrefix(ln, "NEWFAIL ")
				rep = append(rep, ln)
				if len(j.rules) == 0 {
					hit = true
				}
				for _, r := range j.rules {
					if strings.HasPrefix(ln, r+" ") {
						hit = true
					}
				}
			}
			if len(rep) > 6 {
				rep = append(rep[:6], fmt.Sprintf("… %d more", len(rep)-6))
			}
			res.Reported = strings.Join(rep, "; ")
			switch {
			case runErr != nil && hit:
				res.Outcome = "redetected"
			case runErr == nil || len(rep) > 0:
				res.Outcome = "not-redetected"
			default:
				res.Outcome, res.Reported = "skipped", "analysis error: "+firstLine(buf.String())
			}
		}(i, j)
	}
	wg.Wait()
	re, not, sk := 0, 0, 0
	for _, r := range results {
		switch r.Outcome {
		case "redetected":
			re++
		case "not-redetected":
			not++
		default:
			sk++
		}
	}
	return fmt.Sprintf("%d repaired defects: %d reported again on the tree before the repair, %d not, %d skipped", len(results), re, not, sk), results
}

// registryHasRule: is m the name of a rule of the property?
func registryHasRule(propID, m string) bool {
	p := registry[propID]
	if p == nil {
		return false
	}
	for _, r := range p.Rules {
		if r.Name == m {
			return true
		}
	}
	return false
}
