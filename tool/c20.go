// C20: ITF-8 / LTF-8 are exact inverses and equal the CRAM encoding, for all
// values, by abstract interpretation in the bit-provenance domain.
package main

import (
	"fmt"
	"go/token"
	"go/types"
	"sort"

	"golang.org/x/tools/go/ssa"
)

// tfSpec is the CRAM specification of one of the two codecs, written
// independently of the code under analysis.
type tfSpec struct {
	name   string
	pkg    string
	w      int      // value width in bits
	bounds []uint64 // exclusive upper bound of class k (k=1..); last class has no bound
	// bytes returns, for class k (1-based), the expected bytes; bit value
	// bIn(i) = value bit i, 0/1 constants, bTop = unspecified by the format.
	bytes func(k int) [][8]bit
}

func specITF8() tfSpec {
	return tfSpec{name: "ITF8", pkg: "cram/encoding/itf8", w: 32,
		bounds: []uint64{0x80, 0x4000, 0x200000, 0x10000000},
		bytes: func(k int) [][8]bit {
			out := make([][8]bit, k)
			if k <= 4 {
				return tfBigEndian(k, 7*k)
			}
			// 1111 v31..v28 | v27..20 | v19..12 | v11..4 | 0000 v3..v0
			// (the high nibble of the last byte is zero in the encoding the
			// specification's own EOF container shows – ITF8(-1) = ff ff ff ff 0f –
			// and in htslib's; it was treated as unspecified here until a
			// ninth-round sub-agent pointed at the EOF container)
			for t := 0; t < 4; t++ {
				out[0][7-t] = 1
				out[0][t] = bIn(28 + t)
			}
			for j := 1; j <= 3; j++ {
				for t := 0; t < 8; t++ {
					out[j][t] = bIn(28 - 8*j + t)
				}
			}
			for t := 0; t < 4; t++ {
				out[4][t] = bIn(t)
				out[4][4+t] = 0
			}
			return out
		}}
}

func specLTF8() tfSpec {
	return tfSpec{name: "LTF8", pkg: "cram/encoding/ltf8", w: 64,
		bounds: []uint64{1 << 7, 1 << 14, 1 << 21, 1 << 28, 1 << 35, 1 << 42, 1 << 49, 1 << 56},
		bytes: func(k int) [][8]bit {
			if k <= 8 {
				return tfBigEndian(k, 7*k)
			}
			return tfBigEndian(9, 64)
		}}
}

// tfBigEndian: k bytes; first byte carries k-1 one bits, a zero bit (if it
// fits) and then the most significant value bits; nbits value bits in total,
// big endian.
func tfBigEndian(k, nbits int) [][8]bit {
	out := make([][8]bit, k)
	// lay out bit string MSB first
	var s []bit
	for i := 0; i < k-1 && i < 8; i++ {
		s = append(s, 1)
	}
	if k <= 8 {
		s = append(s, 0)
	}
	for i := nbits - 1; i >= 0; i-- {
		s = append(s, bIn(i))
	}
	if len(s) != 8*k {
		panic(fmt.Sprintf("spec layout: %d bits for %d bytes", len(s), k))
	}
	for j := 0; j < k; j++ {
		for t := 0; t < 8; t++ {
			out[j][7-t] = s[8*j+t]
		}
	}
	return out
}

// prefix returns the first-byte pattern of class k: known leading bits, the
// rest symbolic.
func (sp tfSpec) firstByte(k int) bv {
	by := sp.bytes(k)[0]
	v := bv{bits: make([]bit, 8)}
	for t := 0; t < 8; t++ {
		if by[t] == 0 || by[t] == 1 {
			v.bits[t] = by[t]
		} else {
			v.bits[t] = bIn(t)
		}
	}
	return v
}

func (sp tfSpec) nclasses() int { return len(sp.bounds) + 1 }

func (sp tfSpec) classIv(k int) (lo, hi uint64) {
	if k > 1 {
		lo = sp.bounds[k-2]
	}
	if k <= len(sp.bounds) {
		hi = sp.bounds[k-1] - 1
	} else if sp.w == 64 {
		hi = ^uint64(0)
	} else {
		hi = (uint64(1) << uint(sp.w)) - 1
	}
	return
}

func ruleBitTF(sp tfSpec) func(c *Ctx, r *Rep, tier string) {
	return func(c *Ctx, r *Rep, tier string) {
		rule := "BIT-" + sp.name
		enc := c.Func(sp.pkg, "Encode")
		dec := c.Func(sp.pkg, "Decode")
		ln := c.Func(sp.pkg, "Len")
		short := sp.pkg[len("cram/encoding/"):]

		byteT := types.Typ[types.Uint8]
		// ---- Encode: classes, bytes ------------------------------------------------
		heap := []absVal{arrayV{elems: map[int]absVal{}, n: -1, elemT: byteT}}
		args := []absVal{sliceV{ptr: ptrV{cell: 0}}, symBV(sp.w, true, 0)}
		outs, events, undec := execFn(enc, args, heap, sp.w)
		r.Instance(rule, 1)
		if undec != "" {
			r.Fail(rule, short+".Encode#undecided", c.Pos(enc.Pos()), "cannot interpret Encode: "+undec)
			return
		}
		if len(events) > 0 {
			r.Fail(rule, short+".Encode#events", c.Pos(enc.Pos()), fmt.Sprint(events))
		}
		sort.Slice(outs, func(i, j int) bool { return outs[i].st.lo < outs[j].st.lo })
		// partition
		okPart := len(outs) == sp.nclasses()
		detail := ""
		for i, o := range outs {
			n, _ := asInt(o.rets, 0)
			if i < sp.nclasses() {
				lo, hi := sp.classIv(i + 1)
				if o.st.lo != lo || o.st.hi != hi || n != int64(i+1) {
					okPart = false
					detail += fmt.Sprintf(" path[%#x,%#x]→%d (spec: [%#x,%#x]→%d);", o.st.lo, o.st.hi, n, lo, hi, i+1)
				}
			}
		}
		if len(outs) != sp.nclasses() {
			detail += fmt.Sprintf(" %d paths, spec has %d classes", len(outs), sp.nclasses())
		}
		r.Check(okPart, rule, short+".Encode#class-partition", c.Pos(enc.Pos()),
			fmt.Sprintf("%d length classes with the specification's boundaries and lengths", sp.nclasses()), "Encode's length classes differ from the specification:"+detail)

		for _, o := range outs {
			n, ok := asInt(o.rets, 0)
			if !ok || n < 1 || int(n) > sp.nclasses() {
				r.Fail(rule, fmt.Sprintf("%s.Encode#class[%#x..]:len", short, o.st.lo), c.Pos(enc.Pos()), "returned length is not a constant of the class")
				continue
			}
			k := int(n)
			r.Instance(rule, 1)
			arr, _ := o.st.heap[0].(arrayV)
			want := sp.bytes(k)
			// bytes written: exactly indices 0..n-1
			okB := true
			why := ""
			for idx := range arr.elems {
				if idx >= k {
					okB = false
					why += fmt.Sprintf(" writes b[%d] beyond returned length %d;", idx, k)
				}
			}
			for j := 0; j < k; j++ {
				got, ok := arr.elems[j].(bv)
				if !ok {
					okB = false
					why += fmt.Sprintf(" b[%d] not written;", j)
					continue
				}
				got = o.st.refine(got)
				for t := 0; t < 8; t++ {
					w := want[j][t]
					if w == bTop {
						continue
					}
					wv := o.st.refine(bv{bits: []bit{w}}).bits[0]
					if got.bits[t] != wv {
						okB = false
						why += fmt.Sprintf(" b[%d] bit %d is %v, specification says %v;", j, t, got.bits[t], w)
					}
				}
			}
			r.Check(okB, rule, fmt.Sprintf("%s.Encode#class%d:bytes", short, k), c.Pos(enc.Pos()),
				fmt.Sprintf("for all values in [%#x,%#x]: %d bytes written, each bit equals the CRAM layout", o.st.lo, o.st.hi, k),
				fmt.Sprintf("for values in [%#x,%#x] the bytes differ from the CRAM encoding:%s", o.st.lo, o.st.hi, why))

			// ---- Decode ∘ Encode = id on this class -----------------------------------
			dheap := []absVal{arrayV{elems: arr.elems, n: k, elemT: byteT}}
			dargs := []absVal{sliceV{ptr: ptrV{cell: 0}, ln: k, lnKnown: true}}
			douts, devents, _, dundec := execFnIv(dec, dargs, dheap, sp.w, o.st.lo, o.st.hi)
			key := fmt.Sprintf("%s.Decode∘Encode#class%d", short, k)
			switch {
			case dundec != "":
				r.Fail(rule, key, c.Pos(dec.Pos()), "cannot interpret Decode on Encode's bytes: "+dundec)
			case len(devents) > 0:
				r.Fail(rule, key, c.Pos(dec.Pos()), fmt.Sprint(devents))
			case len(douts) != 1:
				r.Fail(rule, key, c.Pos(dec.Pos()), fmt.Sprintf("%d decode paths for one class", len(douts)))
			default:
				d := douts[0]
				why := ""
				v, _ := d.rets[0].(bv)
				if len(v.bits) != sp.w {
					why += " decoded value not an integer of the right width;"
				} else {
					v = d.st.refine(v)
					for i := 0; i < sp.w; i++ {
						wv := d.st.refine(bv{bits: []bit{bIn(i)}}).bits[0]
						if v.bits[i] != wv {
							why += fmt.Sprintf(" decoded bit %d = %v, want input bit %d;", i, v.bits[i], i)
						}
					}
				}
				if nn, ok := asInt(d.rets, 1); !ok || nn != n {
					why += fmt.Sprintf(" Decode reports n=%d, Encode wrote %d;", nn, n)
				}
				if okv, ok := asInt(d.rets, 2); !ok || okv != 1 {
					why += " Decode does not report ok;"
				}
				r.Check(why == "", rule, key, c.Pos(dec.Pos()),
					fmt.Sprintf("for all values in [%#x,%#x]: Decode(Encode(v)) = (v, %d, true), bit for bit", o.st.lo, o.st.hi, k),
					fmt.Sprintf("for values in [%#x,%#x] Decode(Encode(v)) ≠ v:%s", o.st.lo, o.st.hi, why))
			}
		}

		// ---- Len partition -----------------------------------------------------------
		louts, levents, lundec := execFn(ln, []absVal{symBV(sp.w, true, 0)}, nil, sp.w)
		r.Instance(rule, 1)
		if lundec != "" || len(levents) > 0 {
			r.Fail(rule, short+".Len#classes", c.Pos(ln.Pos()), "cannot interpret Len: "+lundec+fmt.Sprint(levents))
		} else {
			sort.Slice(louts, func(i, j int) bool { return louts[i].st.lo < louts[j].st.lo })
			ok := len(louts) == sp.nclasses()
			why := ""
			for i, o := range louts {
				if i >= sp.nclasses() {
					break
				}
				lo, hi := sp.classIv(i + 1)
				n, _ := asInt(o.rets, 0)
				if o.st.lo != lo || o.st.hi != hi || n != int64(i+1) {
					ok = false
					why += fmt.Sprintf(" [%#x,%#x]→%d (spec [%#x,%#x]→%d);", o.st.lo, o.st.hi, n, lo, hi, i+1)
				}
			}
			r.Check(ok, rule, short+".Len#classes", c.Pos(ln.Pos()), "Len's partition equals Encode's and the specification's", "Len disagrees with the specification:"+why)
		}

		// ---- Decode alone: every first-byte class × every available length ---------
		for k := 1; k <= sp.nclasses(); k++ {
			for L := 0; L <= 9; L++ {
				r.Instance(rule, 1)
				elems := map[int]absVal{}
				for j := 0; j < L; j++ {
					if j == 0 {
						elems[0] = sp.firstByte(k)
					} else {
						elems[j] = symBV(8, false, 8*j)
					}
				}
				dheap := []absVal{arrayV{elems: elems, n: L, elemT: byteT}}
				dargs := []absVal{sliceV{ptr: ptrV{cell: 0}, ln: L, lnKnown: true}}
				douts, devents, reads, dundec := execFnIv(dec, dargs, dheap, 0, 0, 0)
				key := fmt.Sprintf("%s.Decode#first-byte-class%d/len%d", short, k, L)
				if L == 0 {
					key = fmt.Sprintf("%s.Decode#len0/%d", short, k)
				}
				why := ""
				switch {
				case dundec != "":
					why = "undecided: " + dundec
				case len(devents) > 0:
					why = fmt.Sprint(devents)
				case len(douts) != 1:
					why = fmt.Sprintf("%d paths", len(douts))
				default:
					d := douts[0]
					nn, _ := asInt(d.rets, 1)
					okv, okc := asInt(d.rets, 2)
					wantOK := int64(0)
					if L >= k {
						wantOK = 1
					}
					wantN := int64(k)
					if L == 0 {
						wantN = 0
					}
					if !okc || okv != wantOK {
						why += fmt.Sprintf(" ok=%d, want %d (announced %d bytes, %d available);", okv, wantOK, k, L)
					}
					if nn != wantN {
						why += fmt.Sprintf(" n=%d, want %d;", nn, wantN)
					}
					for _, p := range reads {
						if p.cell == 0 && len(p.path) == 1 && p.path[0] >= k {
							why += fmt.Sprintf(" reads b[%d] beyond the announced length %d;", p.path[0], k)
						}
					}
					if L >= k {
						// value = the specification's decoding of these bytes
						v, _ := d.rets[0].(bv)
						want := make([]bit, sp.w)
						for j, by := range sp.bytes(k) {
							for t := 0; t < 8; t++ {
								if by[t].isIn() {
									src := bIn(8*j + t)
									if j == 0 {
										src = sp.firstByte(k).bits[t]
									}
									want[by[t].inIdx()] = src
								}
							}
						}
						if len(v.bits) != sp.w {
							why += " value is not an integer of the codec's width;"
						} else {
							for i := 0; i < sp.w; i++ {
								if v.bits[i] != want[i] {
									why += fmt.Sprintf(" value bit %d = %v, specification: %v;", i, v.bits[i], want[i])
								}
							}
						}
					}
				}
				r.Check(why == "", rule, key, c.Pos(dec.Pos()),
					fmt.Sprintf("first byte %v, %d bytes available: ok=%v, n and value as specified, no read at index ≥ %d", sp.firstByte(k), L, L >= k, k),
					"Decode on first byte "+sp.firstByte(k).String()+fmt.Sprintf(" with %d bytes available:", L)+why)
			}
		}
	}
}

func asInt(rets []absVal, i int) (int64, bool) {
	if i >= len(rets) {
		return 0, false
	}
	v, ok := rets[i].(bv)
	if !ok {
		return 0, false
	}
	return v.sint()
}

// ruleTFStream: cram.(*errorReader).itf8/ltf8 fetch one byte, decode it to
// learn n, then fetch exactly buf[1:n] and decode buf[:n].
func ruleTFStream(c *Ctx, r *Rep, tier string) {
	rule := "TF-STREAM"
	for _, cfg := range []struct {
		meth, pkg string
		max       int64
	}{{"(*errorReader).itf8", "cram/encoding/itf8", 5}, {"(*errorReader).ltf8", "cram/encoding/ltf8", 9}} {
		fn := c.Func("cram", cfg.meth)
		dec := c.Func(cfg.pkg, "Decode")
		r.Instance(rule, 1)
		var reads, decs []*ssa.Call
		allInstrs(fn, func(ins ssa.Instruction) {
			call, ok := ins.(*ssa.Call)
			if !ok {
				return
			}
			switch {
			case calleeFullName(&call.Call) == "io.ReadFull":
				reads = append(reads, call)
			case staticCallee(&call.Call) == dec:
				decs = append(decs, call)
			}
		})
		key := "cram." + cfg.meth
		pos := c.Pos(fn.Pos())
		if len(reads) != 2 || len(decs) != 2 {
			r.Fail(rule, key+"#shape", pos, fmt.Sprintf("expected two ReadFull and two Decode calls, found %d and %d: cannot decide", len(reads), len(decs)))
			continue
		}
		sort.Slice(reads, func(i, j int) bool { return reads[i].Pos() < reads[j].Pos() })
		sort.Slice(decs, func(i, j int) bool { return decs[i].Pos() < decs[j].Pos() })
		// n = second result of the first Decode
		isN := func(v ssa.Value) bool {
			e, ok := strip(v).(*ssa.Extract)
			return ok && e.Tuple == decs[0] && e.Index == 1
		}
		sl := func(v ssa.Value) *ssa.Slice { s, _ := strip(v).(*ssa.Slice); return s }
		s1, s2, d1, d2 := sl(reads[0].Call.Args[1]), sl(reads[1].Call.Args[1]), sl(decs[0].Call.Args[0]), sl(decs[1].Call.Args[0])
		why := ""
		if s1 == nil || s2 == nil || d1 == nil || d2 == nil {
			r.Fail(rule, key+"#shape", pos, "buffer arguments are not slices of the local buffer: cannot decide")
			continue
		}
		arr := s1.X
		if a, ok := arr.(*ssa.Alloc); ok {
			if at, ok := a.Type().(*types.Pointer).Elem().Underlying().(*types.Array); !ok || at.Len() < cfg.max {
				why += fmt.Sprintf(" buffer shorter than the longest encoding (%d);", cfg.max)
			}
		} else {
			why += " buffer is not a local array;"
		}
		one := func(v ssa.Value) bool { k, ok := constInt(v); return ok && k == 1 }
		zero := func(v ssa.Value) bool { k, ok := constInt(v); return v == nil || (ok && k == 0) }
		if s2.X != arr || d1.X != arr || d2.X != arr {
			why += " the four buffer arguments are not slices of one buffer;"
		}
		if !(zero(s1.Low) && s1.High != nil && one(s1.High)) {
			why += " first fetch is not buf[:1];"
		}
		if !(zero(d1.Low) && d1.High != nil && one(d1.High)) {
			why += " first Decode is not on buf[:1];"
		}
		if !(s2.Low != nil && one(s2.Low) && s2.High != nil && isN(s2.High)) {
			why += " second fetch is not buf[1:n] with n the length announced by the first byte;"
		}
		if !(zero(d2.Low) && d2.High != nil && isN(d2.High)) {
			why += " second Decode is not on buf[:n];"
		}
		// the second fetch's error is tested before the second decode
		if !instrDominates(reads[1], decs[1]) || !instrDominates(decs[0], reads[1]) {
			why += " order fetch/decode/fetch/decode not on every path;"
		}
		r.Check(why == "", rule, key+"#fetch", pos, "ReadFull(buf[:1]); Decode(buf[:1]) → n; ReadFull(buf[1:n]); Decode(buf[:n])", "stream reader does not fetch exactly the announced remainder:"+why)
	}
	_ = token.ADD
}

func init() {
	register(&PropDef{
		ID: "C20", Title: "ITF-8 / LTF-8 exact inverses, equal to the CRAM encoding", Level: "proof",
		Rules: []RuleDef{
			{Name: "BIT-ITF8", What: "abstract interpretation (bit provenance) of itf8.Encode/Decode/Len against the CRAM layout for all 2^32 values and all byte strings of length 0..9 by first-byte class", Floor: 50, Run: ruleBitTF(specITF8())},
			{Name: "BIT-LTF8", What: "the same for ltf8 and all 2^64 values", Floor: 90, Run: ruleBitTF(specLTF8())},
			{Name: "TF-STREAM", What: "cram stream readers fetch one byte, then exactly buf[1:n]", Floor: 2, Run: ruleTFStream},
			{Name: "STREAM-EOF", What: "the cram stream readers replace an io.EOF from the read of a value's announced remainder by io.ErrUnexpectedEOF: fewer bytes than the first byte announced is a failure, not the clean end every layer above takes io.EOF for (added for a defect of the unchanged tree, repaired f9028f6)", Floor: 2, Run: ruleStreamEOF},
		},
		Explanation: "Proof by abstract interpretation of the go/ssa form of Encode, Decode and Len in a per-bit provenance domain: each path of Encode is a length class (an interval of the unsigned input obtained from the comparisons on the path); on each class the bytes stored are compared bit by bit with the CRAM specification's layout, Decode is then interpreted on those abstract bytes and must return the input bits, the class length and ok. Decode alone is interpreted for every first-byte class × available length 0..9 with all other bits symbolic: announced length, ok ⇔ enough bytes, no read at or beyond the announced length, value equal to the specification's decoding. Any branch the interpreter cannot decide, any out-of-range index and any reachable panic is a failed obligation.",
		NotDecided:  "nothing of the codec; for Decode the high nibble of the fifth ITF-8 byte is accepted whatever it is (decoders mask it).",
		Assumptions: []string{"go/ssa construction is faithful", "transfer functions of the bit domain (absint.go) are correct", "spec tables in c20.go transcribe CRAM §2.3"},
	})
}
