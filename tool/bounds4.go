// VAR-SLICE: variable slice bounds in the anchored decoder functions are
// compared with the length of the slice on a dominating edge.
// LOOP-PROGRESS: cursor loops without post statement advance on every path.
package main

import (
	"fmt"
	"go/token"

	"golang.org/x/tools/go/ssa"
)

// cmpWithLen: block `at` is dominated by an edge on which h ≤ len(s) (strict:
// h < len(s)).
func (bc *boundsCtx) boundedByLen(h, s ssa.Value, at *ssa.BasicBlock, strict bool) bool {
	fn := bc.fn
	for _, b := range fn.Blocks {
		i := ifOf(b)
		if i == nil || !b.Dominates(at) || b.Succs[0] == b.Succs[1] {
			continue
		}
		bo, ok := i.Cond.(*ssa.BinOp)
		if !ok {
			continue
		}
		x, y, op := bo.X, bo.Y, bo.Op
		// normalise to  e  op  len(s)
		if arg, isL := isLenCall(x); isL && sameExpr(arg, s, 0) {
			x, y = y, x
			switch op {
			case token.LSS:
				op = token.GTR
			case token.GTR:
				op = token.LSS
			case token.LEQ:
				op = token.GEQ
			case token.GEQ:
				op = token.LEQ
			}
		}
		arg, isL := isLenCall(y)
		if !isL || !sameExpr(arg, s, 0) {
			continue
		}
		// e relates to h:  e == h, or e == h + c (c ≥ 0), or h == e + c handled only for e == h / h+c
		slack := int64(-1) // e = h + slack
		if sameExpr(x, h, 0) {
			slack = 0
		} else if ebo, ok := x.(*ssa.BinOp); ok && ebo.Op == token.ADD {
			if k, isK := constInt(ebo.Y); isK && k >= 0 && sameExpr(ebo.X, h, 0) {
				slack = k
			}
			// h = a + k1, e = a + k2 with k2 >= k1
			if hbo, ok := h.(*ssa.BinOp); ok && hbo.Op == token.ADD {
				k1, ok1 := constInt(hbo.Y)
				k2, ok2 := constInt(ebo.Y)
				if ok1 && ok2 && k2 >= k1 && sameExpr(hbo.X, ebo.X, 0) {
					slack = k2 - k1
				}
			}
		}
		// h = e + 1 with e < len  ⇒  h ≤ len (enough for a slice bound)
		minusOne := false
		if hbo, ok := h.(*ssa.BinOp); ok && hbo.Op == token.ADD && slack < 0 {
			if k1, ok1 := constInt(hbo.Y); ok1 {
				if sameExpr(hbo.X, x, 0) && k1 == 1 {
					minusOne = true
				}
				if ebo, ok := x.(*ssa.BinOp); ok && ebo.Op == token.ADD {
					if k2, ok2 := constInt(ebo.Y); ok2 && k1 == k2+1 && sameExpr(hbo.X, ebo.X, 0) {
						minusOne = true
					}
				}
			}
		}
		if slack < 0 && !minusOne {
			continue
		}
		for k := 0; k < 2; k++ {
			if !dominatedByEdge(fn, b, k, at) {
				continue
			}
			taken := k == 0
			// on this edge: which relation holds between e and len?
			le, lt := false, false
			switch op {
			case token.GTR: // e > len
				le = !taken
			case token.GEQ: // e >= len
				lt = !taken
			case token.LSS:
				lt = taken
			case token.LEQ:
				le = taken
			}
			if minusOne {
				if lt && !strict {
					return true
				}
				continue
			}
			if lt || (le && (!strict || slack > 0)) {
				return true
			}
		}
	}
	return false
}

func ruleVarSlice(funcs []string) func(c *Ctx, r *Rep, tier string) {
	return func(c *Ctx, r *Rep, tier string) {
		rule := "VAR-SLICE"
		initStoreSummary(c)
		for _, name := range funcs {
			pkg, fnName := splitQual(name)
			fn := c.Func(pkg, fnName)
			bc := &boundsCtx{c: c, fn: fn}
			allInstrs(fn, func(ins ssa.Instruction) {
				var cont ssa.Value
				var bounds []ssa.Value
				strict := false
				switch x := ins.(type) {
				case *ssa.Slice:
					cont = x.X
					for _, v := range []ssa.Value{x.High, x.Max} {
						if v != nil {
							if _, isC := v.(*ssa.Const); !isC {
								bounds = append(bounds, v)
							}
						}
					}
					if x.High == nil && x.Low != nil {
						if _, isC := x.Low.(*ssa.Const); !isC {
							bounds = append(bounds, x.Low)
						}
					}
				case *ssa.IndexAddr:
					if _, isC := x.Index.(*ssa.Const); !isC {
						cont, bounds, strict = x.X, []ssa.Value{x.Index}, true
					}
				}
				if sl, isSl := ins.(*ssa.Slice); isSl && sl.High != nil {
					if _, isC := sl.High.(*ssa.Const); !isC {
						r.Instance(rule, 1)
						key := fmt.Sprintf("%s#low-high", c.FnName(fn))
						if ok, why := bc.sliceOrdered(sl); ok {
							r.Pass(rule, key, c.Pos(ins.Pos()), why)
						} else if t, isT := idxTrusted["VAR-SLICE-ORDER|"+c.FnName(fn)]; isT {
							r.Trusted(rule, 1)
							r.Pass(rule, key, c.Pos(ins.Pos()), "assumed invariant: "+t)
						} else {
							r.Fail(rule, key, c.Pos(ins.Pos()), why+": s[low:high] with high below low panics")
						}
					}
				}
				if cont == nil || len(bounds) == 0 {
					return
				}
				if _, isSlice := cont.Type().Underlying().(interface{ Elem() interface{} }); isSlice {
					_ = isSlice
				}
				for _, h := range bounds {
					r.Instance(rule, 1)
					key := fmt.Sprintf("%s#var-bound", c.FnName(fn))
					pos := c.Pos(ins.Pos())
					// h is len(cont) itself, or derived from it by subtraction
					if arg, isL := isLenCall(h); isL && sameExpr(arg, cont, 0) && !strict {
						r.Pass(rule, key, pos, "bound is len of the slice")
						continue
					}
					if bc.boundedByLen(h, cont, ins.Block(), strict) {
						r.Pass(rule, key, pos, "bound compared with len on a dominating edge")
						continue
					}
					if !strict && bc.boundedByLenMinus(h, cont, ins.Block()) {
						r.Pass(rule, key, pos, "k' + e with unsigned e, and e compared with len − k (k ≥ k') on a dominating edge")
						continue
					}
					if !strict && indexByteBound(h, cont) {
						r.Pass(rule, key, pos, "library contract: base + IndexByte(s[base+c:], x) + c' ≤ len(s) for c' ≤ c")
						continue
					}
					if why, ok := idxTrusted["VAR-SLICE|"+c.FnName(fn)]; ok {
						r.Trusted(rule, 1)
						r.Pass(rule, key, pos, "assumed invariant: "+why)
						continue
					}
					// table lookups with bounded index are IDX-TABLE's
					if g := globalOf(cont); g != nil {
						r.Pass(rule, key, pos, "package-level table (IDX-TABLE)")
						continue
					}
					r.Fail(rule, key, pos, "a slice bound / index computed from the input is used without having been compared with the length of the slice on every path: truncated or inconsistent input makes the decoder panic")
				}
			})
		}
	}
}

func globalOf(v ssa.Value) *ssa.Global {
	switch x := v.(type) {
	case *ssa.Global:
		return x
	case *ssa.UnOp:
		if x.Op == token.MUL {
			g, _ := x.X.(*ssa.Global)
			return g
		}
	}
	return nil
}

func splitQual(name string) (string, string) {
	// "bam.parseAux" / "bam.(*buffer).bytes"
	for i := 0; i < len(name); i++ {
		if name[i] == '.' {
			return name[:i], name[i+1:]
		}
	}
	return "", name
}

// ruleLoopProgress: in the anchored cursor loops (for with a condition on the
// cursor and no post statement), every path from the loop head back to the
// loop head adds a provably positive amount to the cursor.
func ruleLoopProgress(funcs []string) func(c *Ctx, r *Rep, tier string) {
	return func(c *Ctx, r *Rep, tier string) {
		rule := "LOOP-PROGRESS"
		for _, name := range funcs {
			pkg, fnName := splitQual(name)
			fn := c.Func(pkg, fnName)
			bc := &boundsCtx{c: c, fn: fn}
			// cursor phis in loop headers
			for _, b := range fn.Blocks {
				for _, ins := range b.Instrs {
					phi, ok := ins.(*ssa.Phi)
					if !ok {
						break
					}
					if bt, isInt := phi.Type().Underlying().(interface{ Info() int }); isInt {
						_ = bt
					}
					// loop-carried: some edge depends on phi itself
					for ei, e := range phi.Edges {
						if e == ssa.Value(phi) || !dependsOn(e, phi, 0) {
							continue
						}
						// is the loop condition on this cursor?
						i := ifOf(b)
						if i == nil || !dependsOn(i.Cond, phi, 0) {
							continue
						}
						r.Instance(rule, 1)
						key := fmt.Sprintf("%s#cursor-advance", c.FnName(fn))
						// e = phi + d (possibly nested phis): every increment must be ≥ 1
						okAll, why := bc.positiveIncrement(e, phi, b.Preds[ei], 0)
						r.Check(okAll, rule, key, c.Pos(phi.Pos()), "every back edge adds ≥ 1 to the cursor", "a path round the loop does not provably advance the cursor"+why+": the decoder can loop for ever on crafted input")
					}
				}
			}
		}
	}
}

// positiveIncrement: v == base + d with d ≥ 1 on every way v can be computed.
func (bc *boundsCtx) positiveIncrement(v ssa.Value, base *ssa.Phi, at *ssa.BasicBlock, depth int) (bool, string) {
	if depth > 6 {
		return false, " (too deep)"
	}
	switch x := v.(type) {
	case *ssa.Phi:
		if x == base {
			return false, " (cursor unchanged on a path)"
		}
		for i, e := range x.Edges {
			if ok, why := bc.positiveIncrement(e, base, x.Block().Preds[i], depth+1); !ok {
				return false, why
			}
		}
		return true, ""
	case *ssa.BinOp:
		if x.Op == token.ADD {
			if x.X == ssa.Value(base) || func() bool { ok, _ := bc.nonNegIncrement(x.X, base, at, depth+1); return ok }() {
				lb := bc.lowerBound(x.Y, x.Block(), 0)
				if x.X == ssa.Value(base) {
					if lb >= 1 {
						return true, ""
					}
					return false, fmt.Sprintf(" (increment at %s has lower bound %d)", bc.c.Pos(x.Pos()), lb)
				}
				// X already advanced ≥ 0; need total ≥ 1
				if ok, _ := bc.positiveIncrement(x.X, base, at, depth+1); ok && lb >= 0 {
					return true, ""
				}
				if lb >= 1 {
					return true, ""
				}
				return false, fmt.Sprintf(" (increment at %s has lower bound %d)", bc.c.Pos(x.Pos()), lb)
			}
		}
	}
	return false, " (cursor is not advanced by addition)"
}

func (bc *boundsCtx) nonNegIncrement(v ssa.Value, base *ssa.Phi, at *ssa.BasicBlock, depth int) (bool, string) {
	if v == ssa.Value(base) {
		return true, ""
	}
	if depth > 6 {
		return false, ""
	}
	if x, ok := v.(*ssa.BinOp); ok && x.Op == token.ADD {
		if ok, _ := bc.nonNegIncrement(x.X, base, at, depth+1); ok && bc.lowerBound(x.Y, x.Block(), 0) >= 0 {
			return true, ""
		}
	}
	return false, ""
}

// flattenSum decomposes v into non-constant terms and a constant.
func flattenSum(v ssa.Value, terms *[]ssa.Value, k *int64) {
	if bo, ok := v.(*ssa.BinOp); ok && bo.Op == token.ADD {
		flattenSum(bo.X, terms, k)
		flattenSum(bo.Y, terms, k)
		return
	}
	if c, ok := constInt(v); ok {
		*k += c
		return
	}
	*terms = append(*terms, v)
}

// indexByteBound: h = base + r + c' where r = bytes.IndexByte(s[base+c:], _)
// (or Index/IndexAny) and c' ≤ c. The library contract r < len(s[base+c:])
// gives h ≤ base + r + c < len(s).
func indexByteBound(h, s ssa.Value) bool {
	var terms []ssa.Value
	var k int64
	flattenSum(h, &terms, &k)
	for ri, r := range terms {
		call, ok := r.(*ssa.Call)
		if !ok {
			continue
		}
		switch calleeFullName(&call.Call) {
		case "bytes.IndexByte", "bytes.Index", "bytes.IndexAny", "strings.IndexByte", "strings.Index":
		default:
			continue
		}
		sl, ok := call.Call.Args[0].(*ssa.Slice)
		if !ok || sl.High != nil || !sameExpr(sl.X, s, 0) {
			continue
		}
		var lt []ssa.Value
		var lk int64
		if sl.Low != nil {
			flattenSum(sl.Low, &lt, &lk)
		}
		rest := append(append([]ssa.Value(nil), terms[:ri]...), terms[ri+1:]...)
		if len(rest) != len(lt) || k > lk {
			continue
		}
		used := make([]bool, len(lt))
		all := true
		for _, a := range rest {
			found := false
			for j, b := range lt {
				if !used[j] && sameExpr(a, b, 0) {
					used[j], found = true, true
					break
				}
			}
			if !found {
				all = false
			}
		}
		if all {
			return true
		}
	}
	return false
}
