package main

func init() {
	register(&PropDef{
		ID: "C05", Title: "BAM encoding round trip: Writer→Reader reproduces header and every record field", Level: "other",
		Rules: []RuleDef{
			{Name: "WIRE-BAMREC", What: "the eleven fixed record fields: writer sequence = reader sequence = bamRecordFixed layout = specification, widths and the Record field each value comes from / goes to", Floor: 11, Run: ruleWireBamRec},
			{Name: "LEN-ACCOUNT", What: "block_size written = affine sum of the bytes appended after it (fixed 32 + name+1 + 4·cigar + packed seq + qual + aux)", Floor: 1, Run: ruleLenAccount},
			{Name: "WIRE-BAMHDR", What: "binary header: EncodeBinary's token sequence = DecodeBinary's (magic, l_text, text, n_ref, {l_name, name, l_ref}*)", Floor: 6,
				Run: ruleWirePair("WIRE-BAMHDR", "sam.(*Header).EncodeBinary#DecodeBinary", "sam", "(*Header).EncodeBinary", "sam", "(*Header).DecodeBinary", nil)},
			{Name: "TAB-AUX", What: "aux type widths agree between bam.jumps, sam.NewAux literals, sam.Aux.Value slices and the specification", Floor: 20, Run: ruleTabAux},
			{Name: "ACCEPT-AGREE", What: "the aux types and array element types the BAM reader lets through = those sam.Aux.Value decodes = those the format defines (shared with C11)", Floor: 2, Run: ruleAcceptAgree},
			{Name: "WIDEN-FIRST", What: "byte counts of the BAM record (4·n_cigar_op, name, sequence) are computed in int, not in the 16 or 32 bit type the count was read in (shared with C11; added after sixth-round seed C05-g)", Floor: 1, Run: ruleWidenFirst([]string{"bam", "sam"}, "bam-codec")},
			{Name: "BIT-CIGAR", What: "CigarOp.Type/Len unpack length<<4|type (bit domain, all values)", Floor: 2, Run: ruleBitCigar},
			{Name: "TAB-NIBBLE", What: "base code tables are mutually inverse and equal \"=ACMGRSVTWYHKDBN\"; contract/Expand use the high nibble for even positions", Floor: 18, Run: ruleNibble},
			{Name: "PATH-OMIT", What: "Omit modes: exactly the omitted parts are not decoded", Floor: 1, Run: rulePathOmit},
			{Name: "PATH-AUXALL", What: "buildAux appends every aux field on every path round its loop", Floor: 1, Run: ruleAuxAll},
			{Name: "LEN-EXACT", What: "bam.newBuffer hands the decoder exactly block_size bytes on every path (added after seed C05-d)", Floor: 3, Run: ruleLenExact},
			{Name: "REF-INDEP", What: "bam.Reader.Read decodes the reference and the mate reference independently of each other's id (added after seed C05-c)", Floor: 2, Run: ruleRefIndep},
			{Name: "PATH-SHARED", What: "a record buffer whose data aliases Reader-owned memory is marked shared (so retained slices are copies)", Floor: 1, Run: ruleBufShared},
			{Name: "AUX-ARRAY-MIN", What: "bam.parseAux demands no more than the eight header bytes of a B array before it has read the count: an array without elements as the last field is eight bytes (added after eighth-round seed C05-i)", Floor: 1, Run: ruleAuxArrayMin},
			{Name: "REF-COUNT", What: "sam.readRefRecords' loop runs to the reference count it is given, not to the length of a slice allocated with a cap (added after eighth-round seed C05-j: a header with more than 1000 references)", Floor: 1, Run: ruleRefCount},
			{Name: "SCAN-LIMIT", What: "no parser of package sam reads lines through a bufio.Scanner with the default 64 KiB token limit: a header line may be longer (shared with C07; here since thirteenth-round seed C05-n)", Floor: 0, Run: ruleScanLimit([]string{"sam"})},
			{Name: "HEX-TEXT", What: "an H aux field is held – and so written to BAM – as hexadecimal text, the format's encoding, not as the raw bytes (shared with C06; added for a defect of the unchanged tree, repaired 38d8749)", Floor: 4, Run: ruleHexText},
			{Name: "MEMO-COHERENT", What: "String of Reference, ReadGroup and Program writes nothing into its receiver – or, where it keeps what it computed, every function that assigns another field of an existing item renews the kept field too: the header text written is that of the current values (added after fifteenth-round seed C05-p, first left unreported)", Floor: 3, Run: ruleMemoCoherent},
			{Name: "DATE-ZONE", What: "a read group date is written with a layout that carries the zone, and in UTC where the zone offset has seconds: the BAM header text names the same instant (shared with C07)", Floor: 1, Run: ruleDateZone},
			{Name: "ERR-LATCH", What: "bam.Reader.Read consults the buffer's sticky error; EncodeBinary consults its errWriter", Floor: 2,
				Run: ruleStickyErr([]latchCfg{{pkg: "bam", fn: "(*Reader).Read", typ: "buffer", fld: "err"}, {pkg: "sam", fn: "(*Header).EncodeBinary", typ: "errWriter", fld: "err"}})},
		},
		Explanation: "A symmetric encode/decode mistake is invisible to a round trip; these rules compare both sides with the specification instead. WIRE-BAMREC: three views of the fixed record layout (writer call sequence with the Record field each argument derives from, reader call sequence with the field each value flows to, the bamRecordFixed struct) against the specification's eleven fields; LEN-ACCOUNT: block_size as an affine expression over len(Name), len(Cigar), len(Seq.Seq), Seq.Length, len(aux) equals the bytes actually appended; WIRE-BAMHDR the binary header pair; TAB-AUX/TAB-NIBBLE/BIT-CIGAR the sibling tables and bit packings (CIGAR proved for all values in the bit domain); PATH-OMIT the Omit modes; PATH-AUXALL no aux field is skipped; PATH-SHARED returned records do not alias a buffer the reader reuses; ERR-LATCH a record shorter than its fields is an error.",
		NotDecided:  "equality against an independent encoder for all records (value-level), the interaction with BGZF block boundaries, aux payload byte order inside binary.Write (trusted library).",
	})
}
