// VAR-SLICE, two additions made after fifteenth-round seed C11-p (the CRAM
// file-header text length read as int32: the upper test still holds, the
// lower one went with the unsigned type).
//
//   - sliceOrdered: for s[L:H] with a computed H, H ≥ L on every path – the
//     lower bound of H (bounds engine: constants, unsigned conversions,
//     dominating sign tests) is at least the constant L, or H is L plus a
//     term shown non-negative.
//   - boundedByLenMinus: the guard form  conv(e) > conv(len(s) − k)  (leave)
//     for a bound  k' + e  with k' ≤ k and e unsigned.
package main

import (
	"go/token"
	"go/types"

	"golang.org/x/tools/go/ssa"
)

func (bc *boundsCtx) sliceOrdered(x *ssa.Slice) (bool, string) {
	if x.High == nil {
		return true, "no upper bound"
	}
	if _, isC := x.High.(*ssa.Const); isC {
		if x.Low == nil {
			return true, "constant bounds"
		}
		if _, isC := x.Low.(*ssa.Const); isC {
			return true, "constant bounds"
		}
		// s[v:K]: v ≤ K is the upper-bound clause's business (v is a bound too)
		return true, "constant upper bound"
	}
	var kL int64
	if x.Low != nil {
		k, isK := constInt(x.Low)
		if !isK {
			// H = L + y with y ≥ 0
			if bo, ok := stripConv(x.High).(*ssa.BinOp); ok && bo.Op == token.ADD {
				for i, o := range []ssa.Value{bo.X, bo.Y} {
					other := []ssa.Value{bo.Y, bo.X}[i]
					if sameExpr(o, x.Low, 0) && bc.lowerBound(other, x.Block(), 0) >= 0 {
						return true, "upper bound is the lower one plus a non-negative term"
					}
				}
			}
			if sameExpr(x.High, x.Low, 0) {
				return true, "equal bounds"
			}
			// L = a + k1, H = a + k2, k2 ≥ k1
			if lb, ok := stripConv(x.Low).(*ssa.BinOp); ok && lb.Op == token.ADD {
				if hb, ok := stripConv(x.High).(*ssa.BinOp); ok && hb.Op == token.ADD {
					k1, ok1 := constInt(lb.Y)
					k2, ok2 := constInt(hb.Y)
					if ok1 && ok2 && k2 >= k1 && sameExpr(lb.X, hb.X, 0) {
						return true, "both bounds are one base plus constants in order"
					}
				}
			}
			if bc.orderedByGuard(x.Low, x.High, x.Block()) {
				return true, "bounds compared on a dominating edge"
			}
			return false, "the upper bound is not shown to be at least the lower one"
		}
		kL = k
	}
	if lb := bc.lowerBound(x.High, x.Block(), 0); lb >= kL {
		return true, "upper bound ≥ lower bound on every path"
	}
	return false, "the computed upper bound can be below the lower bound (a signed count from the input without a sign test)"
}

// orderedByGuard: a dominating edge on which lo ≤ hi (or lo < hi) holds.
func (bc *boundsCtx) orderedByGuard(lo, hi ssa.Value, at *ssa.BasicBlock) bool {
	for _, b := range bc.fn.Blocks {
		i := ifOf(b)
		if i == nil || !b.Dominates(at) || b.Succs[0] == b.Succs[1] {
			continue
		}
		bo, ok := i.Cond.(*ssa.BinOp)
		if !ok {
			continue
		}
		for k := 0; k < 2; k++ {
			if !dominatedByEdge(bc.fn, b, k, at) {
				continue
			}
			taken := k == 0
			xLo, yHi := sameExpr(bo.X, lo, 0) && sameExpr(bo.Y, hi, 0), sameExpr(bo.X, hi, 0) && sameExpr(bo.Y, lo, 0)
			switch {
			case xLo && (bo.Op == token.LEQ || bo.Op == token.LSS) && taken,
				xLo && (bo.Op == token.GTR) && !taken,
				yHi && (bo.Op == token.GEQ || bo.Op == token.GTR) && taken,
				yHi && (bo.Op == token.LSS) && !taken:
				return true
			}
		}
	}
	return false
}

func isUnsignedInt(t types.Type) bool {
	b, ok := t.Underlying().(*types.Basic)
	return ok && b.Info()&types.IsUnsigned != 0
}

// boundedByLenMinus: h = k' + e (e unsigned or shown ≥ 0), guard conv(e) > conv(len(s) − k)
// left on the true edge (or ≤ … entered), k' ≤ k  ⇒  h ≤ len(s).
func (bc *boundsCtx) boundedByLenMinus(h, s ssa.Value, at *ssa.BasicBlock) bool {
	hb, ok := stripConv(h).(*ssa.BinOp)
	if !ok || hb.Op != token.ADD {
		return false
	}
	var e ssa.Value
	var kh int64
	if k, isK := constInt(hb.X); isK {
		e, kh = hb.Y, k
	} else if k, isK := constInt(hb.Y); isK {
		e, kh = hb.X, k
	} else {
		return false
	}
	if kh < 0 || (!isUnsignedInt(e.Type()) && bc.lowerBound(e, at, 0) < 0) {
		return false
	}
	for _, b := range bc.fn.Blocks {
		i := ifOf(b)
		if i == nil || !b.Dominates(at) || b.Succs[0] == b.Succs[1] {
			continue
		}
		bo, ok := i.Cond.(*ssa.BinOp)
		if !ok {
			continue
		}
		x, y, op := stripConv(bo.X), stripConv(bo.Y), bo.Op
		if !sameExpr(x, stripConv(e), 0) {
			continue
		}
		// the conversions must widen (or keep) an unsigned value: a narrowing
		// conversion of e would compare something else
		if cv, ok := bo.X.(*ssa.Convert); ok {
			fw, _, _ := basicWidth(cv.X.Type())
			tw, _, _ := basicWidth(cv.Type())
			if tw < fw {
				continue
			}
		}
		yb, ok := y.(*ssa.BinOp)
		if !ok || yb.Op != token.SUB {
			continue
		}
		k, isK := constInt(yb.Y)
		arg, isL := isLenCall(yb.X)
		if !isK || !isL || !sameExpr(arg, s, 0) || k < kh {
			continue
		}
		// len(s) − k must not be negative where it is converted to unsigned
		if bc.lenLB(s, b, 0) < k {
			continue
		}
		for kk := 0; kk < 2; kk++ {
			if !dominatedByEdge(bc.fn, b, kk, at) {
				continue
			}
			taken := kk == 0
			if (op == token.GTR && !taken) || (op == token.LEQ && taken) || (op == token.GEQ && !taken) || (op == token.LSS && taken) {
				return true
			}
		}
	}
	return false
}
