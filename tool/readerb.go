// Reader protocol, continued: two rules written after fifth-round seeds.
//
//	BASE-ONCE    Block.setBase is invoked only where the decompressor gives a block
//	             the offset it is about to read (nextBlockAt). A failed read-ahead
//	             result is matched with the block the reader wants by that base;
//	             a base changed on the failure path makes the result unattributable,
//	             nextBlock discards it and waits for ever on a parked worker.
//	STICKY-ERR   Reader.Read and ReadByte leave at once, with the recorded error
//	             and without touching it, when one is recorded. (Past the end of
//	             the data the read-ahead worker is parked; a Read that carries on
//	             waits on it for ever.)
package main

import (
	"fmt"
	"strings"

	"golang.org/x/tools/go/ssa"
)

func ruleBaseOnce(c *Ctx, r *Rep, tier string) {
	rule := "BASE-ONCE"
	n := 0
	for _, fn := range c.FuncsIn("bgzf") {
		for _, f := range withAnon(fn) {
			allInstrs(f, func(ins ssa.Instruction) {
				call, ok := ins.(*ssa.Call)
				if !ok {
					return
				}
				name := ""
				if call.Call.IsInvoke() {
					name = call.Call.Method.Name()
				} else if g := staticCallee(&call.Call); g != nil {
					name = g.Name()
				}
				if name != "setBase" {
					return
				}
				n++
				r.Instance(rule, 1)
				key := c.FnName(f) + "#setBase"
				why := ""
				arg := ""
				if len(call.Call.Args) > 0 {
					arg = symKey(call.Call.Args[len(call.Call.Args)-1])
				}
				// the offset the count reader is brought to for this member: what
				// it is compared with and sought to (after the skip of cached blocks)
				readFrom := false
				if len(call.Call.Args) > 0 {
					av := call.Call.Args[len(call.Call.Args)-1]
					allInstrs(f, func(x ssa.Instruction) {
						if sc, ok := x.(*ssa.Call); ok {
							if g := staticCallee(&sc.Call); g != nil && g.Name() == "seek" && len(sc.Call.Args) > 0 && sc.Call.Args[len(sc.Call.Args)-1] == av {
								readFrom = true
							}
						}
					})
				}
				switch {
				case f.Name() != "nextBlockAt":
					why = "setBase(" + arg + ") outside nextBlockAt: once a read has been started for an offset the block keeps that base, also when the read fails – nextBlock recognises the (failed) result of the block it wants by its base, and waits for ever if none of the results carries it"
				case arg != "$1" && !strings.HasSuffix(arg, ".cr.offset()") && !readFrom:
					why = "the base given is " + arg + ", not the offset the member is read from"
				}
				r.Check(why == "", rule, key, c.Pos(call.Pos()), "the block gets the offset it is read from, in nextBlockAt only", why)
			})
		}
	}
	if n == 0 {
		r.Instance(rule, 1)
		r.Fail(rule, "bgzf#setBase", "-", "no call of setBase found: the rule's anchor is gone (undecided)")
	}
}

func ruleReaderStickyErr(c *Ctx, r *Rep, tier string) {
	rule := "STICKY-ERR"
	errF := c.Field("bgzf", "Reader", "err")
	for _, name := range []string{"(*Reader).Read", "(*Reader).ReadByte"} {
		fn := c.Func("bgzf", name)
		r.Instance(rule, 1)
		key := "bgzf." + name + "#entry"
		why := ""
		// the first branch of the function tests bg.err against nil
		b0 := fn.Blocks[0]
		ce, ok := classifyErrIf(b0, func(v ssa.Value) bool { f, _ := loadedField(v); return f == errF })
		if !ok || !ce.isNil {
			why = "the function does not start by testing the recorded error"
		} else {
			set := b0.Succs[1-ce.yes]
			// on that edge: straight to a return of the recorded error, no store to it
			storesErr := func(ins ssa.Instruction) bool {
				st, ok := ins.(*ssa.Store)
				if !ok {
					return false
				}
				fa, ok := st.Addr.(*ssa.FieldAddr)
				return ok && fieldVarOfAddr(fa) == errF
			}
			if bad, found := pathTo(Loc{set, -1}, storesErr, isReturn, nil); found {
				why = fmt.Sprintf("with an error recorded the call goes on and overwrites it at %s: the error of the stream (its end included) is not sticky, and past the end nothing will ever deliver another block", c.Pos(bad.Pos()))
			}
			okRet := true
			var walk func(b *ssa.BasicBlock, seen map[*ssa.BasicBlock]bool)
			walk = func(b *ssa.BasicBlock, seen map[*ssa.BasicBlock]bool) {
				if seen[b] {
					return
				}
				seen[b] = true
				for _, ins := range b.Instrs {
					if _, isCall := ins.(*ssa.Call); isCall {
						okRet = false // work is done although an error is recorded
					}
					if ret, isRet := ins.(*ssa.Return); isRet {
						f, _ := loadedField(retValue(ret, len(ret.Results)-1))
						if f != errF {
							okRet = false
						}
						return
					}
				}
				for _, s := range b.Succs {
					walk(s, seen)
				}
			}
			walk(set, map[*ssa.BasicBlock]bool{})
			if why == "" && !okRet {
				why = "with an error recorded the call does not return that error at once"
			}
		}
		r.Check(why == "", rule, key, c.Pos(fn.Pos()), "if bg.err != nil { return 0, bg.err } before anything else", why)
	}
}
