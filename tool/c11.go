// C11: decoders are total (structural guards).
package main

// idxTrusted: sites whose justification relies on an invariant or contract the
// rule cannot re-derive. Keyed "RULE|function"; counted separately in the
// evidence as "trusted". A change that breaks the named invariant elsewhere is
// not detected by these rules.
var idxTrusted = map[string]string{}

func trust(rule string, fns []string, why string) {
	for _, f := range fns {
		idxTrusted[rule+"|"+f] = why
	}
}

func init() {
	trust("IDX-CONST", []string{"cram/encoding/itf8.Decode", "cram/encoding/ltf8.Decode"}, "proved under C20 (BIT-ITF8/LTF8 interpret every first-byte class × available length: no index ≥ len)")
	trust("IDX-CONST", []string{"cram/encoding/itf8.Encode", "cram/encoding/ltf8.Encode"}, "documented caller contract: b must be large enough")
	aux := []string{"sam.Aux.Value", "sam.Aux.String", "sam.Aux.matches", "sam.Aux.Type", "sam.Aux.Tag", "sam.Aux.Kind", "sam.samAux.String"}
	trust("IDX-CONST", aux, "Aux invariant (≥ 3 bytes, payload matching the declared type/count) established by bam.parseAux (VAR-SLICE/LOOP-PROGRESS), sam.NewAux, sam.ParseAux")
	trust("MAKE-SIGN", []string{"sam.Aux.Value"}, "Aux invariant: the B-array count matches the payload length")
	trust("IDX-CONST", []string{"bam.(*bySortOrderAndID).Pop"}, "container/heap contract: Pop is called by heap.Pop/Remove only when Len() > 0")
	trust("IDX-CONST", []string{"bam.(*Merger).cat"}, "called only from Merger.Read after len(m.readers) == 0 returned io.EOF")
	trust("IDX-CONST", []string{"bgzf/index.(*ChunkReader).Read"}, "len(r.chunks) == 0 is tested at the top and after each shrink; only ChunkReader's own methods assign chunks (the analysis cannot exclude a ChunkReader wrapped in its own bgzf.Reader)")
	trust("IDX-CONST", []string{"internal.readBins", "csi.readBins"}, "inside `for i := 0; i < len(bins); i++` with i ≥ 0 (i is decremented only together with the shrink), so len(bins) ≥ 1")
	trust("IDX-CONST", []string{"fai.ReadFrom"}, "encoding/csv contract: FieldsPerRecord = 5 makes every record have five fields")
	trust("IDX-CONST", []string{"sam.contract"}, "len(s) odd ⇒ len(ns) = (len(s)+1)/2 ≥ 1")
	trust("MAKE-SIGN", []string{"internal.(*Index).Add"}, "Start/End validated by IsValidIndexPos at entry (−1 ≤ pos < 2^29): tile numbers are ≥ 0")
	trust("MAKE-SIGN", []string{"sam.(*Record).UnmarshalSAM"}, "Seq.Length is the len of the parsed sequence (NewSeq) or zero")
	trust("MAKE-SIGN", []string{"sam.Seq.Expand"}, "Seq invariant: Length ≥ 0 (bam.Reader rejects negative l_seq; NewSeq uses len)")
	trust("IDX-TABLE", []string{"sam.atoi"}, "len(b) ≤ len(powers) is tested on entry and 0 ≤ i < len(b), so 0 ≤ k−i < len(powers)")
	trust("VAR-SLICE", []string{"bam.(*buffer).unsafeBytes"}, "b.len() < n (len(data)−off < n) is rejected just above, so off+n ≤ len(data); the helper call hides the relation from the rule")
	trust("VAR-SLICE-ORDER", []string{"bam.(*buffer).unsafeBytes"}, "n ≥ 0 at every call site (a constant; a count widened from an unsigned field, the name length after its `< 1` test; lSeq after its sign test; b.len()): data[s:s+n] has s ≤ s+n. The clause follows neither the field update b.off += n nor the call sites")
	trust("VAR-SLICE", []string{"bam.(*buffer).readUint8"}, "b.len() < 1 is rejected just above, so off−1 < len(data)")

	register(&PropDef{
		ID: "C11", Title: "Decoders are total: any bytes give a value or an error, never a panic or hang", Level: "other",
		Rules: []RuleDef{
			{Name: "IDX-CONST", What: "every constant index / slice bound on a slice or string in library code is justified by a dominating length comparison, a construction fact or a listed library contract", Floor: 60, Run: ruleIdxConst(idxTrusted)},
			{Name: "IDX-TABLE", What: "every variable index into a package-level table has a statically known range inside the table", Floor: 8, Run: ruleIdxTable},
			{Name: "MAKE-SIGN", What: "every make() whose length is not a constant is shown non-negative (conversion from unsigned, len, dominating sign test, or at every call site for parameters)", Floor: 30, Run: ruleMakeSign},
			{Name: "DIV-ZERO", What: "every integer division has a divisor shown non-zero on every path", Floor: 2, Run: ruleDivZero},
			{Name: "NILRET", What: "no exported decoder/constructor returns a nil pointer result together with a nil error", Floor: 10, Run: ruleNilRet},
			{Name: "ASSERT-CHECKED", What: "every type assertion without comma-ok in library code is behind a test of the same value for the same type, made from a value of that type, or in the reviewed table: an unchecked assertion on a value whose type the input chooses is a panic (added after eleventh-round seed C11-l)", Floor: 4, Run: ruleAssertChecked},
			{Name: "ERR-LATCH", What: "bam.Reader.Read consults the record buffer's sticky error before it returns a record, on every path – the Omit modes leave early: a record shorter than its own fields claim is an error, not a value whose accessors index past what was read (shared with C05, C10; here since fifteenth-round seed C11-o)", Floor: 1, Run: ruleStickyErr([]latchCfg{{pkg: "bam", fn: "(*Reader).Read", typ: "buffer", fld: "err"}})},
			{Name: "TF-STREAM", What: "the CRAM stream readers slice a buffer that holds the longest encoding (5 bytes ITF-8, 9 bytes LTF-8) by the width the first byte announces (shared with C20; here since thirteenth-round seed C11-m: a shared 8-byte scratch field, and a first byte 0xff slices [1:9])", Floor: 2, Run: ruleTFStream},
			{Name: "CSV-FIELDS", What: "the premise IDX-CONST trusts in fai.ReadFrom: csv.Reader.FieldsPerRecord is a positive constant above every constant record index, set once, before the first Read (added after eleventh-round seed C11-k)", Floor: 1, Run: ruleCSVFields},
			{Name: "PANIC-REACH", What: "every explicit panic in library code is in the reviewed table (caller contract / internal / recovered)", Floor: 15, Run: rulePanicReach},
			{Name: "VAR-SLICE", What: "in the BAM record/aux decoders and the CRAM file-header decoder every variable slice bound is compared with the slice's length on a dominating edge, and a computed upper bound is shown to be no smaller than the lower one (a count from the input that may be negative: s[4:4+n]); the second clause and the CRAM decoder since fifteenth-round seed C11-p", Floor: 8, Run: ruleVarSlice(varSliceFuncs)},
			{Name: "LOOP-PROGRESS", What: "bam.parseAux's cursor advances by ≥ 1 on every path round its loop", Floor: 1, Run: ruleLoopProgress(loopProgressFuncs)},
			{Name: "ACCEPT-AGREE", What: "the aux types and array element types bam.parseAux lets through are exactly those sam.Aux.Value decodes and the format defines (both sets computed by partial evaluation of the branch conditions under each value of the type and subtype bytes)", Floor: 2, Run: ruleAcceptAgree},
			{Name: "MAP-INIT", What: "every map field that methods write through an existing object is made, on every path, before a function that allocates the object returns it (through callees by summary): a decoded or new value never has a nil map that Add/Set would write to", Floor: 8, Run: ruleMapInit},
			{Name: "WIDEN-FIRST", What: "in the decoders (bam, sam, cram, csi, tabix, internal, bgzf) a count taken from the input is widened before it enters +, * or <<: no such arithmetic in an unsigned type of 32 bits or fewer feeds an int conversion or a slice bound (added after sixth-round seeds C11-g, C11-h, C05-g)", Floor: 1, Run: ruleWidenFirst([]string{"bam", "sam", "cram", "csi", "tabix", "internal", "bgzf"}, "decoders")},
			{Name: "CIGAR-SCAN", What: "sam.ParseCigar returns when its scan for the operation letter runs off the end of the text (a length without letter)", Floor: 1, Run: ruleCigarScan},
			{Name: "NIL-AUX", What: "no method is called on the possibly nil result of AuxFields.Get without a nil test, also through helpers it is handed to", Floor: 1, Run: ruleNilAux},
			{Name: "IDX-SIGN", What: "in the index packages an index taken from the record (the result of an interface call such as RefID()) is shown non-negative before it is used; and in the exported methods with an ok or error result an index or slice bound computed from an integer parameter is shown in range (ReferenceStats(id), Chunks with a negative start)", Floor: 6, Run: ruleIdxSign},
			{Name: "AUX-ARRAY-MIN", What: "bam.parseAux demands no more than the eight header bytes of a B array before it has read the count (shared with C05): a value the writer produced is decoded", Floor: 1, Run: ruleAuxArrayMin},
			{Name: "NIL-RECV", What: "every exported reporting method of *sam.Reference tests the receiver for nil before it reads a field: the readers return a nil Reference for a read without one (added for a defect of the unchanged tree, repaired ba68e79: String, Tags, Get)", Floor: 8, Run: ruleNilRecv},
			{Name: "NAME-STORE", What: "a name-table key (Reference.name, ReadGroup.name, Program.uid) is written only together with the table or into a fresh object: a stale entry makes the next AddReference index the list out of range (shared with C07)", Floor: 6, Run: ruleNameStore},
			{Name: "REG2BINS-RANGE", What: "csi.reg2bins and internal.OverlappingBinsFor show beg ≥ 0, end beyond beg and end ≤ a power of two before they shift them into uint32 bin numbers and walk them with an unsigned counter: bounded time for every query, also one made from the positions of a decoded record (shared with C04)", Floor: 6, Run: ruleReg2binsRange},
			{Name: "BIN-WIDTH", What: "every binary.ByteOrder UintN/PutUintN call gets at least N/8 bytes: known slice length, constant difference of bounds, or a helper that returns n bytes or nil whose nil conditions the caller has excluded", Floor: 20, Run: ruleBinWidth},
			{Name: "DST-FITS", What: "every hex.Decode in the library writes into a destination made for its source, or into a fixed array under a dominating bound on the source's decoded length", Floor: 3, Run: ruleDstFits},
			{Name: "SHIFT-FITS", What: "in csi.ReadFrom every shift by a computed amount (a function of the decoded depth) is bounded below the width of the shifted type", Floor: 1, Run: ruleShiftFits},
			{Name: "OFFSET-FITS", What: "fai.ReadFrom bounds BytesPerLine (relative to the number of lines) and Start (relative to the record's extent), the operands of the unchecked product and sum in Record.position", Floor: 2, Run: ruleOffsetFits},
		},
		Explanation: "Removes, on every path of every library function, the classical decoder mistakes that make hostile input panic or hang: a fixed-column index or slice bound without a length test (IDX-CONST, with a small lower-bound analysis over constants, len, slicing arithmetic and the comparisons that dominate the use), a decoded signed count handed to make (MAKE-SIGN), a lookup table smaller than its index's range (IDX-TABLE), division by a decoded zero (DIV-ZERO), nil value with nil error (NILRET), explicit panics outside the reviewed set (PANIC-REACH), unchecked variable bounds and a non-advancing cursor in the BAM aux walker (VAR-SLICE, LOOP-PROGRESS).",
		NotDecided:  "variable-index arithmetic outside the anchored decoders (BAM record and aux data, the CRAM file header; the CRAM container, slice and block-content decoders are not anchored), the sites listed as trusted (type invariants and library contracts, named in the evidence), nil dereferences in general, panics inside the standard library, memory use. The rules do not prove absence of all panics.",
		Assumptions: []string{"64-bit int", "library contracts: bytes/strings.Split return at least one element; hex.DecodedLen ≥ 0; bufio Peek/ReadBytes; bytes.IndexByte", "trusted sites: see init() in tool/c11.go"},
	})
}

// decoder functions whose variable slice bounds and cursor loops are anchored
var varSliceFuncs = []string{"bam.parseAux", "bam.(*buffer).unsafeBytes", "bam.(*buffer).discard", "bam.(*buffer).readUint8", "cram.(*Block).Value"}
var loopProgressFuncs = []string{"bam.parseAux"}
