// Path enumeration over go/ssa with effect counting. Used by the protocol
// rules: "exactly one X on every path from A to B", "returns only over the
// closed edge of a receive", balance of acquire/release, with
//   - phi resolution along the path,
//   - nil-comparisons decided where the operand is known along the path,
//   - two tests of the same struct field with no possible store in between
//     treated as one predicate (branch correlation),
//   - deferred calls applied at rundefers,
//   - static callees (and literals) summarised by their own path enumeration.
//
// Loops: each block may be visited at most maxVisits times on one path.
package main

import (
	"fmt"
	"go/token"
	"go/types"
	"sort"
	"strings"

	"golang.org/x/tools/go/ssa"
)

type Counts map[string]int

func (c Counts) key() string {
	var ks []string
	for k, v := range c {
		if v != 0 {
			ks = append(ks, fmt.Sprintf("%s=%d", k, v))
		}
	}
	sort.Strings(ks)
	return strings.Join(ks, ",")
}

func (c Counts) clone() Counts {
	n := Counts{}
	for k, v := range c {
		n[k] = v
	}
	return n
}

type PState struct {
	Counts Counts
	memo   map[string]bool
	phi    map[*ssa.Phi]ssa.Value
	visits map[*ssa.BasicBlock]int
	defers []*ssa.Defer
	Trace  []int // block indices
	Events []string
}

func (s *PState) fork() *PState {
	n := &PState{Counts: s.Counts.clone(), memo: map[string]bool{}, phi: map[*ssa.Phi]ssa.Value{}, visits: map[*ssa.BasicBlock]int{}}
	for k, v := range s.memo {
		n.memo[k] = v
	}
	for k, v := range s.phi {
		n.phi[k] = v
	}
	for k, v := range s.visits {
		n.visits[k] = v
	}
	n.defers = append([]*ssa.Defer(nil), s.defers...)
	n.Trace = append([]int(nil), s.Trace...)
	n.Events = append([]string(nil), s.Events...)
	return n
}

// PathEnd is the outcome of one enumerated path.
type PathEnd struct {
	At     ssa.Instruction // Return, Panic, or the stop instruction
	Counts Counts
	Trace  []int
	Events []string
	// Ret: for paths ending in a return, the results with phis resolved along
	// the path (and deferred-return spills looked through).
	Ret []ssa.Value
}

type Walker struct {
	c *Ctx
	// Effect classifies a primitive instruction (send, receive, call …). A call
	// instruction claimed here is not descended into.
	Effect func(ins ssa.Instruction) (string, bool)
	// Edge classifies CFG edges (e.g. the closed edge of a channel receive).
	Edge func(from *ssa.BasicBlock, succ int) (string, bool)
	// CondEdge classifies a branch by the value its condition resolves to on
	// the path (through φs and negation) – e.g. the comma-ok result of a channel
	// receive that was kept in a variable (`open`) and tested later.
	CondEdge func(v ssa.Value, truth bool) (string, bool)
	// Stop ends a path at an instruction (region end); the instruction's own
	// effect is not counted.
	Stop      func(ins ssa.Instruction) bool
	MaxVisits int
	MaxPaths  int
	Inline    int // call depth to summarise
	// NoPanicEnds: paths ending in an explicit panic are dropped.
	NoPanicEnds bool
	// NonNil lets a rule declare further values as never nil (e.g. values
	// received from a channel on which only non-nil values are sent).
	NonNil func(v ssa.Value) bool
	// AssumeNonNil: values known to be non-nil at the start of Walk (e.g. the
	// error on the non-nil edge the walk starts from).
	AssumeNonNil []ssa.Value
	// AssumeMemo seeds nil-facts by memo key (used for receiver-field facts
	// carried from a call site into the callee's summary).
	AssumeMemo map[string]bool

	npaths   int
	overflow bool
	sums     map[*ssa.Function][]Counts
	sumsWith map[string][]Counts
	inprog   map[*ssa.Function]bool
	stores   map[*ssa.Function]map[*types.Var]bool
}

func NewWalker(c *Ctx) *Walker {
	return &Walker{c: c, MaxVisits: 2, MaxPaths: 400000, Inline: 4, NoPanicEnds: true,
		sums: map[*ssa.Function][]Counts{}, inprog: map[*ssa.Function]bool{}, stores: map[*ssa.Function]map[*types.Var]bool{}}
}

// mayStore: struct fields a function (transitively) may assign.
func (w *Walker) mayStore(fn *ssa.Function) map[*types.Var]bool {
	if m, ok := w.stores[fn]; ok {
		return m
	}
	m := map[*types.Var]bool{}
	w.stores[fn] = m // recursion guard: partial result
	if fn.Blocks == nil {
		return m
	}
	allInstrs(fn, func(ins ssa.Instruction) {
		if st, ok := ins.(*ssa.Store); ok {
			if fa, ok := st.Addr.(*ssa.FieldAddr); ok {
				if f := fieldVarOfAddr(fa); f != nil {
					m[f] = true
				}
			}
		}
		if cc := callCommon(ins); cc != nil {
			for _, g := range w.c.resolveCallees(cc) {
				for f := range w.mayStore(g) {
					m[f] = true
				}
			}
		}
	})
	return m
}

func (w *Walker) resolve(st *PState, v ssa.Value) ssa.Value {
	for i := 0; i < 32; i++ {
		switch x := v.(type) {
		case *ssa.ChangeType:
			v = x.X
		case *ssa.ChangeInterface:
			v = x.X
		case *ssa.Phi:
			if u, ok := st.phi[x]; ok {
				v = u
			} else {
				return v
			}
		default:
			return v
		}
	}
	return v
}

func isNonNilValue(v ssa.Value) bool {
	switch x := v.(type) {
	case *ssa.Alloc, *ssa.MakeClosure, *ssa.MakeChan, *ssa.MakeMap, *ssa.MakeSlice, *ssa.FieldAddr, *ssa.IndexAddr, *ssa.Function, *ssa.Global:
		return true
	case *ssa.MakeInterface:
		return true
	case *ssa.Const:
		return !x.IsNil() && x.Value != nil
	}
	return false
}

// evalCond: (value, known, memo key).
func (w *Walker) evalCond(st *PState, cond ssa.Value) (bool, bool, string) {
	v := w.resolve(st, cond)
	switch x := v.(type) {
	case *ssa.Const:
		if x.Value != nil && x.Value.Kind() == 1 { // constant.Bool
			return x.Value.String() == "true", true, ""
		}
	case *ssa.UnOp:
		if x.Op == token.NOT {
			b, known, key := w.evalCond(st, x.X)
			if key != "" {
				key = "!" + key
			}
			return !b, known, key
		}
	case *ssa.BinOp:
		if x.Op == token.EQL || x.Op == token.NEQ {
			a, b := w.resolve(st, x.X), w.resolve(st, x.Y)
			if isNilConst(b) {
				a, b = b, a
			}
			if isNilConst(a) {
				eq, known, key := w.isNil(st, b)
				if x.Op == token.NEQ {
					if key != "" {
						key = "!" + key
					}
					return !eq, known, key
				}
				return eq, known, key
			}
		}
	}
	key := fmt.Sprintf("v:%p@%d", v, st.visitOf(v))
	if strings.HasPrefix(key, "!") {
		key = key[1:]
	}
	if b, ok := st.memo[key]; ok {
		return b, true, ""
	}
	return false, false, key
}

func (s *PState) visitOf(v ssa.Value) int {
	if ins, ok := v.(ssa.Instruction); ok && ins.Block() != nil {
		return s.visits[ins.Block()]
	}
	return 0
}

func (w *Walker) isNil(st *PState, v ssa.Value) (bool, bool, string) {
	if isNilConst(v) {
		return true, true, ""
	}
	if isNonNilValue(v) || (w.NonNil != nil && w.NonNil(v)) {
		return false, true, ""
	}
	var key string
	if f, base := loadedField(v); f != nil {
		key = fmt.Sprintf("f:%p:%p", f, origin(base))
	} else {
		key = fmt.Sprintf("n:%p@%d", v, st.visitOf(v))
	}
	if b, ok := st.memo[key]; ok {
		return b, true, ""
	}
	return false, false, key
}

func (s *PState) setMemo(key string, val bool) {
	for strings.HasPrefix(key, "!") {
		key = key[1:]
		val = !val
	}
	s.memo[key] = val
}

func (s *PState) forgetField(f *types.Var) {
	p := fmt.Sprintf("f:%p:", f)
	for k := range s.memo {
		if strings.HasPrefix(k, p) {
			delete(s.memo, k)
		}
	}
}

// Summary: distinct effect-count vectors over all paths entry→return of fn.
func (w *Walker) Summary(fn *ssa.Function) []Counts { return w.SummaryWith(fn, nil) }

// receiverFieldTests: the fields of fn's receiver (first parameter) that fn
// compares with nil.
func receiverFieldTests(fn *ssa.Function) []*types.Var {
	if len(fn.Params) == 0 {
		return nil
	}
	seen := map[*types.Var]bool{}
	var out []*types.Var
	for _, b := range fn.Blocks {
		ifi := ifOf(b)
		if ifi == nil {
			continue
		}
		bo, ok := ifi.Cond.(*ssa.BinOp)
		if !ok || (bo.Op != token.EQL && bo.Op != token.NEQ) {
			continue
		}
		for _, side := range []ssa.Value{bo.X, bo.Y} {
			if f, base := loadedField(side); f != nil && origin(base) == ssa.Value(fn.Params[0]) && !seen[f] {
				seen[f] = true
				out = append(out, f)
			}
		}
	}
	return out
}

// SummaryWith: Summary under nil-facts about fields of the receiver that hold at
// the call site (field → is nil). A helper's `if r.f == nil` is then the same
// predicate as the caller's test of r.f (no store of r.f in between: the caller's
// memo has forgotten the field otherwise).
func (w *Walker) SummaryWith(fn *ssa.Function, facts map[*types.Var]bool) []Counts {
	if len(facts) == 0 {
		if s, ok := w.sums[fn]; ok {
			return s
		}
	}
	var fkey string
	if len(facts) > 0 {
		var ks []string
		for f, v := range facts {
			ks = append(ks, fmt.Sprintf("%p=%v", f, v))
		}
		sort.Strings(ks)
		fkey = strings.Join(ks, ",")
		if w.sumsWith == nil {
			w.sumsWith = map[string][]Counts{}
		}
		if s, ok := w.sumsWith[fmt.Sprintf("%p|%s", fn, fkey)]; ok {
			return s
		}
	}
	if w.inprog[fn] || fn.Blocks == nil {
		return []Counts{{}}
	}
	w.inprog[fn] = true
	sub := &Walker{c: w.c, Effect: w.Effect, Edge: nil, Stop: nil, NonNil: w.NonNil, MaxVisits: w.MaxVisits, MaxPaths: w.MaxPaths, Inline: w.Inline - 1, NoPanicEnds: w.NoPanicEnds,
		sums: w.sums, inprog: w.inprog, stores: w.stores, sumsWith: w.sumsWith}
	if len(facts) > 0 {
		sub.AssumeMemo = map[string]bool{}
		for f, v := range facts {
			sub.AssumeMemo[fmt.Sprintf("f:%p:%p", f, ssa.Value(fn.Params[0]))] = v
		}
	}
	ends := sub.Walk(fn, entryLoc(fn))
	if sub.overflow {
		w.overflow = true
	}
	seen := map[string]bool{}
	var out []Counts
	for _, e := range ends {
		if _, isRet := e.At.(*ssa.Return); !isRet {
			continue
		}
		k := e.Counts.key()
		if !seen[k] {
			seen[k] = true
			out = append(out, e.Counts)
		}
	}
	if len(out) == 0 {
		out = []Counts{{}}
	}
	delete(w.inprog, fn)
	if len(facts) > 0 {
		w.sumsWith[fmt.Sprintf("%p|%s", fn, fkey)] = out
	} else {
		w.sums[fn] = out
	}
	return out
}

// Walk enumerates paths from `from` (exclusive) to function exits / Stop
// instructions.
func (w *Walker) Walk(fn *ssa.Function, from Loc) []PathEnd {
	var ends []PathEnd
	st := &PState{Counts: Counts{}, memo: map[string]bool{}, phi: map[*ssa.Phi]ssa.Value{}, visits: map[*ssa.BasicBlock]int{}}
	st.visits[from.B] = 1
	st.Trace = []int{from.B.Index}
	for k, v := range w.AssumeMemo {
		st.memo[k] = v
	}
	for _, v := range w.AssumeNonNil {
		if f, base := loadedField(v); f != nil {
			st.memo[fmt.Sprintf("f:%p:%p", f, origin(base))] = false
		} else {
			st.memo[fmt.Sprintf("n:%p@%d", v, st.visitOf(v))] = false
		}
	}
	// deferred calls registered before `from` on every path are in force
	allInstrs(fn, func(ins ssa.Instruction) {
		if d, ok := ins.(*ssa.Defer); ok && from.I >= 0 {
			if instrDominates(d, from.B.Instrs[from.I]) {
				st.defers = append(st.defers, d)
			}
		}
	})
	w.walk(fn, st, from.B, from.I+1, &ends)
	return ends
}

func (w *Walker) applyCall(fn *ssa.Function, st *PState, ins ssa.Instruction, cont func(*PState)) {
	cc := callCommon(ins)
	callees := []*ssa.Function{}
	if g := staticCallee(cc); g != nil && g.Blocks != nil && w.Inline > 0 && w.c.PkgOf(g) != nil {
		callees = append(callees, g)
	}
	// memo invalidation
	for _, g := range w.c.resolveCallees(cc) {
		for f := range w.mayStore(g) {
			st.forgetField(f)
		}
	}
	if len(callees) == 0 {
		cont(st)
		return
	}
	var facts map[*types.Var]bool
	if len(cc.Args) > 0 && callees[0].Signature.Recv() != nil {
		base := origin(cc.Args[0])
		for _, f := range receiverFieldTests(callees[0]) {
			if v, ok := st.memo[fmt.Sprintf("f:%p:%p", f, base)]; ok {
				if facts == nil {
					facts = map[*types.Var]bool{}
				}
				facts[f] = v
			}
		}
	}
	sums := w.SummaryWith(callees[0], facts)
	if len(sums) == 1 {
		for k, v := range sums[0] {
			st.Counts[k] += v
		}
		cont(st)
		return
	}
	for _, s := range sums {
		ns := st.fork()
		for k, v := range s {
			ns.Counts[k] += v
		}
		cont(ns)
	}
}

func (w *Walker) walk(fn *ssa.Function, st *PState, b *ssa.BasicBlock, idx int, ends *[]PathEnd) {
	if w.overflow {
		return
	}
	for i := idx; i < len(b.Instrs); i++ {
		ins := b.Instrs[i]
		if w.Stop != nil && w.Stop(ins) {
			w.end(st, ins, ends)
			return
		}
		if w.Effect != nil {
			if name, ok := w.Effect(ins); ok {
				st.Counts[name]++
				if _, isDefer := ins.(*ssa.Defer); isDefer {
					st.Counts[name]-- // counted when it runs
					st.defers = append(st.defers, ins.(*ssa.Defer))
				}
				continue
			}
		}
		switch x := ins.(type) {
		case *ssa.Store:
			if fa, ok := x.Addr.(*ssa.FieldAddr); ok {
				if f := fieldVarOfAddr(fa); f != nil {
					st.forgetField(f)
					// a store of a known nil / non-nil value sets the predicate
					v := w.resolve(st, x.Val)
					key := fmt.Sprintf("f:%p:%p", f, origin(fa.X))
					if isNilConst(v) {
						st.memo[key] = true
					} else if isNonNilValue(v) {
						st.memo[key] = false
					}
				}
			}
		case *ssa.Defer:
			st.defers = append(st.defers, x)
		case *ssa.RunDefers:
			// run deferred calls LIFO; each may fork
			ds := st.defers
			st.defers = nil
			var run func(s *PState, k int)
			run = func(s *PState, k int) {
				if k < 0 {
					w.walk(fn, s, b, i+1, ends)
					return
				}
				d := ds[k]
				if w.Effect != nil {
					if name, ok := w.Effect(d); ok {
						s.Counts[name]++
						run(s, k-1)
						return
					}
				}
				w.applyCall(fn, s, d, func(ns *PState) { run(ns, k-1) })
			}
			run(st, len(ds)-1)
			return
		case *ssa.Call:
			done := false
			w.applyCall(fn, st, x, func(ns *PState) {
				if ns == st {
					return
				}
				done = true
				w.walk(fn, ns, b, i+1, ends)
			})
			if done {
				return
			}
		case *ssa.Go:
			// a started goroutine's effects are not effects of this path
		case *ssa.Return:
			w.end(st, ins, ends)
			return
		case *ssa.Panic:
			if !w.NoPanicEnds {
				w.end(st, ins, ends)
			}
			return
		case *ssa.Jump:
			w.enter(fn, st, b, 0, ends)
			return
		case *ssa.If:
			val, known, key := w.evalCond(st, x.Cond)
			// the condition as a value of the path: what a flag variable holds here
			condEdge := func(s *PState, k int) {
				if w.CondEdge == nil {
					return
				}
				cv, neg := x.Cond, false
				for {
					if u, ok := cv.(*ssa.UnOp); ok && u.Op == token.NOT {
						cv, neg = u.X, !neg
						continue
					}
					break
				}
				rv := w.resolve(s, cv)
				if rv == x.Cond {
					return // tested directly: Edge sees it
				}
				if name, ok := w.CondEdge(rv, (k == 0) != neg); ok {
					s.Counts[name]++
				}
			}
			if known {
				k := 1
				if val {
					k = 0
				}
				condEdge(st, k)
				w.enter(fn, st, b, k, ends)
				return
			}
			s0, s1 := st.fork(), st
			if key != "" {
				s0.setMemo(key, true)
				s1.setMemo(key, false)
			}
			condEdge(s0, 0)
			condEdge(s1, 1)
			w.enter(fn, s0, b, 0, ends)
			w.enter(fn, s1, b, 1, ends)
			return
		}
	}
}

func (w *Walker) enter(fn *ssa.Function, st *PState, from *ssa.BasicBlock, k int, ends *[]PathEnd) {
	to := from.Succs[k]
	if w.Edge != nil {
		if name, ok := w.Edge(from, k); ok {
			st.Counts[name]++
		}
	}
	if st.visits[to] >= w.MaxVisits {
		return // longer unrollings are covered by the shorter ones for counting purposes
	}
	st.visits[to]++
	st.Trace = append(st.Trace, to.Index)
	// phis
	for _, ins := range to.Instrs {
		phi, ok := ins.(*ssa.Phi)
		if !ok {
			break
		}
		for i, p := range to.Preds {
			if p == from {
				st.phi[phi] = w.resolve(st, phi.Edges[i])
			}
		}
	}
	w.walk(fn, st, to, 0, ends)
}

func (w *Walker) end(st *PState, at ssa.Instruction, ends *[]PathEnd) {
	w.npaths++
	if w.npaths > w.MaxPaths {
		w.overflow = true
		return
	}
	pe := PathEnd{At: at, Counts: st.Counts.clone(), Trace: st.Trace, Events: st.Events}
	if ret, ok := at.(*ssa.Return); ok {
		for i := range ret.Results {
			pe.Ret = append(pe.Ret, w.resolve(st, retValue(ret, i)))
		}
	}
	*ends = append(*ends, pe)
}

func traceStr(t []int) string {
	var s []string
	for _, b := range t {
		s = append(s, fmt.Sprint(b))
	}
	return "blocks " + strings.Join(s, "→")
}
