// Core of the analyser: loading /repo's working tree, anchor resolution,
// obligations, known findings, evidence.
package main

import (
	"encoding/json"
	"fmt"
	"go/ast"
	"go/token"
	"go/types"
	"os"
	"path/filepath"
	"sort"
	"strings"
	"sync"
	"time"

	"golang.org/x/tools/go/callgraph"
	"golang.org/x/tools/go/callgraph/cha"
	"golang.org/x/tools/go/callgraph/vta"
	"golang.org/x/tools/go/packages"
	"golang.org/x/tools/go/ssa"
	"golang.org/x/tools/go/ssa/ssautil"
)

const repoMod = "github.com/biogo/hts"

// minRepoPackages is the number of non-test packages of the module confirmed by
// hand on the pinned tree; loading fewer means the build was not covered.
const minRepoPackages = 13

// Ctx is one loaded program (the repository, or the canary module).
type Ctx struct {
	Dir    string
	Mod    string
	Fset   *token.FileSet
	Pkgs   []*packages.Package
	ByPath map[string]*packages.Package
	Prog   *ssa.Program
	SSA    map[string]*ssa.Package

	cgOnce sync.Once
	cg     *callgraph.Graph
	chaG   *callgraph.Graph

	srcFuncs []*ssa.Function // all functions (incl. anonymous) with source in module packages
	byDecl   map[*types.Func]*ssa.Function
}

func goEnv() []string {
	env := []string{}
	for _, e := range os.Environ() {
		if strings.HasPrefix(e, "GOWORK=") || strings.HasPrefix(e, "GOFLAGS=") ||
			strings.HasPrefix(e, "GOPROXY=") || strings.HasPrefix(e, "GOSUMDB=") ||
			strings.HasPrefix(e, "GOTOOLCHAIN=") {
			continue
		}
		env = append(env, e)
	}
	return append(env, "GOWORK=off", "GOFLAGS=-mod=mod", "GOPROXY=off", "GOSUMDB=off", "GOTOOLCHAIN=local")
}

// Load type-checks dir's module (non-test files, the default build
// configuration – the repository has no build-tagged non-test files) with full
// syntax for dependencies when deep is set, and builds go/ssa.
func Load(dir, mod string, deep bool, patterns ...string) (*Ctx, error) {
	mode := packages.LoadSyntax
	if deep {
		mode = packages.LoadAllSyntax
	}
	cfg := &packages.Config{Mode: mode, Dir: dir, Env: goEnv(), Tests: false}
	if len(patterns) == 0 {
		patterns = []string{"./..."}
	}
	pkgs, err := packages.Load(cfg, patterns...)
	if err != nil {
		return nil, fmt.Errorf("load %s: %v", dir, err)
	}
	var errs []string
	packages.Visit(pkgs, nil, func(p *packages.Package) {
		for _, e := range p.Errors {
			errs = append(errs, e.Error())
		}
	})
	if len(errs) > 0 {
		return nil, fmt.Errorf("load %s: %d type/parse errors, first: %s", dir, len(errs), errs[0])
	}
	c := &Ctx{Dir: dir, Mod: mod, ByPath: map[string]*packages.Package{}, SSA: map[string]*ssa.Package{}, byDecl: map[*types.Func]*ssa.Function{}}
	for _, p := range pkgs {
		if p.PkgPath == mod || strings.HasPrefix(p.PkgPath, mod+"/") {
			c.Pkgs = append(c.Pkgs, p)
			c.ByPath[strings.TrimPrefix(strings.TrimPrefix(p.PkgPath, mod), "/")] = p
			c.Fset = p.Fset
		}
	}
	if len(c.Pkgs) == 0 {
		return nil, fmt.Errorf("load %s: no packages of module %s", dir, mod)
	}
	sort.Slice(c.Pkgs, func(i, j int) bool { return c.Pkgs[i].PkgPath < c.Pkgs[j].PkgPath })
	var prog *ssa.Program
	if deep {
		prog, _ = ssautil.AllPackages(pkgs, ssa.InstantiateGenerics)
	} else {
		prog, _ = ssautil.Packages(pkgs, ssa.InstantiateGenerics)
	}
	prog.Build()
	c.Prog = prog
	for rel, p := range c.ByPath {
		sp := prog.Package(p.Types)
		if sp == nil {
			return nil, fmt.Errorf("no ssa package for %s", p.PkgPath)
		}
		c.SSA[rel] = sp
	}
	// collect source functions
	seen := map[*ssa.Function]bool{}
	var add func(f *ssa.Function)
	add = func(f *ssa.Function) {
		if f == nil || seen[f] || f.Blocks == nil {
			return
		}
		seen[f] = true
		c.srcFuncs = append(c.srcFuncs, f)
		if o, ok := f.Object().(*types.Func); ok && o != nil {
			c.byDecl[o] = f
		}
		for _, a := range f.AnonFuncs {
			add(a)
		}
	}
	for _, sp := range c.SSA {
		for _, m := range sp.Members {
			switch m := m.(type) {
			case *ssa.Function:
				add(m)
			case *ssa.Type:
				for _, t := range []types.Type{m.Type(), types.NewPointer(m.Type())} {
					ms := prog.MethodSets.MethodSet(t)
					for i := 0; i < ms.Len(); i++ {
						f := prog.MethodValue(ms.At(i))
						if f != nil && f.Pkg == sp && f.Synthetic == "" {
							add(f)
						}
					}
				}
			}
		}
	}
	sort.Slice(c.srcFuncs, func(i, j int) bool { return c.srcFuncs[i].Pos() < c.srcFuncs[j].Pos() })
	// canonical operand order (see canonOperands): done once, before any rule looks
	for _, f := range c.srcFuncs {
		canonOperands(f)
	}
	return c, nil
}

// canonOperands rewrites, in place, every binary operation of f that has its
// constant operand on the left so that it has it on the right: 2+i becomes i+2,
// 0 > x becomes x < 0, nil == p becomes p == nil. The operations are
// commutative (or the comparison is mirrored), so the function computes the
// same; the rules then see one spelling only. (String concatenation is left
// alone.)
func canonOperands(f *ssa.Function) {
	isConst := func(v ssa.Value) bool { _, ok := v.(*ssa.Const); return ok }
	for _, b := range f.Blocks {
		for _, ins := range b.Instrs {
			bo, ok := ins.(*ssa.BinOp)
			if !ok || !isConst(bo.X) || isConst(bo.Y) {
				continue
			}
			switch bo.Op {
			case token.ADD:
				if bt, ok := bo.Type().Underlying().(*types.Basic); ok && bt.Info()&types.IsString != 0 {
					continue
				}
				bo.X, bo.Y = bo.Y, bo.X
			case token.MUL, token.AND, token.OR, token.XOR, token.EQL, token.NEQ:
				bo.X, bo.Y = bo.Y, bo.X
			case token.LSS:
				bo.X, bo.Y, bo.Op = bo.Y, bo.X, token.GTR
			case token.GTR:
				bo.X, bo.Y, bo.Op = bo.Y, bo.X, token.LSS
			case token.LEQ:
				bo.X, bo.Y, bo.Op = bo.Y, bo.X, token.GEQ
			case token.GEQ:
				bo.X, bo.Y, bo.Op = bo.Y, bo.X, token.LEQ
			}
		}
	}
}

// SrcFuncs returns every function with a body declared in the module (methods,
// functions, literals), in source order.
func (c *Ctx) SrcFuncs() []*ssa.Function { return c.srcFuncs }

// FuncsIn returns the source functions of one package (relative path).
func (c *Ctx) FuncsIn(rel string) []*ssa.Function {
	sp := c.SSA[rel]
	var out []*ssa.Function
	for _, f := range c.srcFuncs {
		if f.Pkg == sp || (f.Pkg == nil && f.Parent() != nil && rootFn(f).Pkg == sp) {
			out = append(out, f)
		}
	}
	return out
}

func rootFn(f *ssa.Function) *ssa.Function {
	for f.Parent() != nil {
		f = f.Parent()
	}
	return f
}

// CallGraph returns the VTA call graph (seeded by CHA) of the whole program.
func (c *Ctx) CallGraph() *callgraph.Graph {
	c.cgOnce.Do(func() {
		c.chaG = cha.CallGraph(c.Prog)
		c.cg = vta.CallGraph(ssautil.AllFunctions(c.Prog), c.chaG)
	})
	return c.cg
}

func (c *Ctx) CHA() *callgraph.Graph { c.CallGraph(); return c.chaG }

// Pos renders a position relative to the module directory.
func (c *Ctx) Pos(p token.Pos) string {
	if !p.IsValid() {
		return "-"
	}
	pp := c.Fset.Position(p)
	rel, err := filepath.Rel(c.Dir, pp.Filename)
	if err != nil {
		rel = pp.Filename
	}
	return fmt.Sprintf("%s:%d", rel, pp.Line)
}

// ---- anchors ---------------------------------------------------------------

type anchorErr struct{ what string }

func (e anchorErr) Error() string { return "unresolved anchor: " + e.what }

func unresolved(format string, a ...any) { panic(anchorErr{fmt.Sprintf(format, a...)}) }

// Named resolves a named type; panics with anchorErr if absent.
func (c *Ctx) Named(pkg, name string) *types.Named {
	p := c.ByPath[pkg]
	if p == nil {
		unresolved("package %q", pkg)
	}
	o := p.Types.Scope().Lookup(name)
	tn, ok := o.(*types.TypeName)
	if !ok {
		unresolved("type %s.%s", pkg, name)
	}
	n, ok := tn.Type().(*types.Named)
	if !ok {
		unresolved("type %s.%s is not a named type", pkg, name)
	}
	return n
}

// Field resolves a struct field object (promoted fields are not searched).
func (c *Ctx) Field(pkg, typ, field string) *types.Var {
	n := c.Named(pkg, typ)
	st, ok := n.Underlying().(*types.Struct)
	if !ok {
		unresolved("%s.%s is not a struct", pkg, typ)
	}
	for i := 0; i < st.NumFields(); i++ {
		if st.Field(i).Name() == field {
			return st.Field(i)
		}
	}
	unresolved("field %s.%s.%s", pkg, typ, field)
	return nil
}

// Func resolves a package-level function or a method written "(*T).M" / "T.M".
func (c *Ctx) Func(pkg, name string) *ssa.Function {
	f := c.FuncOpt(pkg, name)
	if f == nil {
		unresolved("function %s.%s", pkg, name)
	}
	return f
}

func (c *Ctx) FuncOpt(pkg, name string) *ssa.Function {
	sp := c.SSA[pkg]
	if sp == nil {
		return nil
	}
	if strings.Contains(name, ".") {
		i := strings.LastIndex(name, ".")
		recv, m := name[:i], name[i+1:]
		recv = strings.Trim(recv, "()")
		ptr := strings.HasPrefix(recv, "*")
		recv = strings.TrimPrefix(recv, "*")
		tn, ok := sp.Pkg.Scope().Lookup(recv).(*types.TypeName)
		if !ok {
			return nil
		}
		var t types.Type = tn.Type()
		if ptr {
			t = types.NewPointer(t)
		}
		sel := c.Prog.MethodSets.MethodSet(t).Lookup(sp.Pkg, m)
		if sel == nil && !ptr {
			sel = c.Prog.MethodSets.MethodSet(types.NewPointer(t)).Lookup(sp.Pkg, m)
		}
		if sel == nil {
			return nil
		}
		f := c.Prog.MethodValue(sel)
		if f != nil && f.Synthetic != "" {
			// wrapper for promoted / value method: find the declared one
			if o, ok := sel.Obj().(*types.Func); ok {
				if d := c.byDecl[o]; d != nil {
					return d
				}
			}
		}
		return f
	}
	return sp.Func(name)
}

// Global resolves a package-level variable.
func (c *Ctx) Global(pkg, name string) *ssa.Global {
	sp := c.SSA[pkg]
	if sp == nil {
		unresolved("package %q", pkg)
	}
	g, ok := sp.Members[name].(*ssa.Global)
	if !ok {
		unresolved("global %s.%s", pkg, name)
	}
	return g
}

// FuncDecl finds the syntax of a declared function.
func (c *Ctx) FuncDecl(f *ssa.Function) *ast.FuncDecl {
	if d, ok := f.Syntax().(*ast.FuncDecl); ok {
		return d
	}
	return nil
}

// PkgOf returns the go/packages package that declares f.
func (c *Ctx) PkgOf(f *ssa.Function) *packages.Package {
	r := rootFn(f)
	if r.Pkg == nil {
		return nil
	}
	for _, p := range c.Pkgs {
		if p.Types == r.Pkg.Pkg {
			return p
		}
	}
	return nil
}

// FnName is a stable, position-free name of a function: pkg.(*T).M, pkg.F,
// pkg.F$1 for literals.
func (c *Ctx) FnName(f *ssa.Function) string {
	if f.Parent() != nil {
		return c.FnName(f.Parent()) + strings.TrimPrefix(f.Name(), f.Parent().Name())
	}
	pkg := ""
	if f.Pkg != nil {
		pkg = strings.TrimPrefix(strings.TrimPrefix(f.Pkg.Pkg.Path(), c.Mod), "/")
		if pkg == "" {
			pkg = "hts"
		}
	}
	if recv := f.Signature.Recv(); recv != nil {
		t := recv.Type()
		ptr := ""
		if p, ok := t.(*types.Pointer); ok {
			t, ptr = p.Elem(), "*"
		}
		name := t.String()
		if n, ok := t.(*types.Named); ok {
			name = n.Obj().Name()
		}
		if ptr != "" {
			return fmt.Sprintf("%s.(*%s).%s", pkg, name, f.Name())
		}
		return fmt.Sprintf("%s.%s.%s", pkg, name, f.Name())
	}
	return pkg + "." + f.Name()
}

// ---- obligations -----------------------------------------------------------

type Obl struct {
	Rule   string `json:"rule"`
	Key    string `json:"key"`
	Pos    string `json:"pos,omitempty"`
	OK     bool   `json:"ok"`
	Just   string `json:"justification,omitempty"`
	Detail string `json:"detail,omitempty"`
	Known  bool   `json:"known_finding,omitempty"`
}

type RuleStat struct {
	Rule      string `json:"rule"`
	What      string `json:"what"`
	Instances int    `json:"instances"`
	Floor     int    `json:"floor"`
	Obls      int    `json:"obligations"`
	Failed    int    `json:"failed"`
	Trusted   int    `json:"trusted,omitempty"`
}

type Rep struct {
	Prop     string
	Obls     []Obl
	stats    map[string]*RuleStat
	order    []string
	Notes    []string
	Canaries []CanaryResult
	keys     map[string]int
}

type CanaryResult struct {
	Rule     string   `json:"rule"`
	Bad      []string `json:"bad_instances_reported"`
	GoodPass int      `json:"good_instances_passed"`
	OK       bool     `json:"ok"`
	Detail   string   `json:"detail,omitempty"`
}

func NewRep(prop string) *Rep {
	return &Rep{Prop: prop, stats: map[string]*RuleStat{}, keys: map[string]int{}}
}

func (r *Rep) stat(rule string) *RuleStat {
	s := r.stats[rule]
	if s == nil {
		s = &RuleStat{Rule: rule}
		r.stats[rule] = s
		r.order = append(r.order, rule)
	}
	return s
}

// Rule declares a rule, its description and the instance floor.
func (r *Rep) Rule(rule, what string, floor int) {
	s := r.stat(rule)
	s.What = what
	s.Floor = floor
}

// Instance counts a matched site of a rule.
func (r *Rep) Instance(rule string, n int) { r.stat(rule).Instances += n }

func (r *Rep) Trusted(rule string, n int) { r.stat(rule).Trusted += n }

func (r *Rep) uniq(rule, key string) string {
	k := rule + "\x00" + key
	n := r.keys[k]
	r.keys[k] = n + 1
	if n == 0 {
		return key
	}
	return fmt.Sprintf("%s~%d", key, n+1)
}

func (r *Rep) Pass(rule, key, pos, just string) {
	s := r.stat(rule)
	s.Obls++
	r.Obls = append(r.Obls, Obl{Rule: rule, Key: r.uniq(rule, key), Pos: pos, OK: true, Just: just})
}

func (r *Rep) Fail(rule, key, pos, detail string) {
	s := r.stat(rule)
	s.Obls++
	s.Failed++
	r.Obls = append(r.Obls, Obl{Rule: rule, Key: r.uniq(rule, key), Pos: pos, OK: false, Detail: detail})
}

func (r *Rep) Check(ok bool, rule, key, pos, just, detail string) {
	if ok {
		r.Pass(rule, key, pos, just)
	} else {
		r.Fail(rule, key, pos, detail)
	}
}

func (r *Rep) Note(format string, a ...any) { r.Notes = append(r.Notes, fmt.Sprintf(format, a...)) }

// ---- known findings ---------------------------------------------------------

type Known struct {
	Prop, Rule, Key, What string
}

func loadKnown(path string) ([]Known, []string, error) {
	b, err := os.ReadFile(path)
	if err != nil {
		if os.IsNotExist(err) {
			return nil, nil, nil
		}
		return nil, nil, err
	}
	var ks []Known
	var fixed []string
	for _, ln := range strings.Split(string(b), "\n") {
		ln = strings.TrimSpace(ln)
		if ln == "" || strings.HasPrefix(ln, "#") {
			continue
		}
		if strings.HasPrefix(ln, "fixed:") {
			fixed = append(fixed, ln)
			continue
		}
		if !strings.HasPrefix(ln, "known:") {
			return nil, nil, fmt.Errorf("known_findings: bad line %q", ln)
		}
		head, what, _ := strings.Cut(strings.TrimSpace(strings.TrimPrefix(ln, "known:")), " :: ")
		k := Known{What: strings.TrimSpace(what)}
		for _, f := range strings.Fields(head) {
			kk, v, _ := strings.Cut(f, "=")
			switch kk {
			case "property":
				k.Prop = v
			case "rule":
				k.Rule = v
			case "key":
				k.Key = v
			}
		}
		if k.Prop == "" || k.Rule == "" || k.Key == "" {
			return nil, nil, fmt.Errorf("known_findings: incomplete line %q", ln)
		}
		ks = append(ks, k)
	}
	return ks, fixed, nil
}

// ---- evidence ---------------------------------------------------------------

type Evidence struct {
	PropertyID  string         `json:"property_id"`
	Tier        string         `json:"tier"`
	Seed        int            `json:"seed"`
	Level       string         `json:"level"`
	Coverage    map[string]any `json:"coverage"`
	Assumptions []string       `json:"assumptions"`
	WallS       float64        `json:"wall_s"`
	Violations  int            `json:"violations"`
}

func writeJSON(path string, v any) error {
	b, err := json.MarshalIndent(v, "", " ")
	if err != nil {
		return err
	}
	if err := os.MkdirAll(filepath.Dir(path), 0o755); err != nil {
		return err
	}
	tmp := path + ".tmp"
	if err := os.WriteFile(tmp, append(b, '\n'), 0o644); err != nil {
		return err
	}
	return os.Rename(tmp, path)
}

var startTime = time.Now()
