// C06: SAM text round trip – structural part.
package main

import (
	"fmt"
	"go/ast"
	"go/token"
	"go/types"
	"sort"
	"strconv"
	"strings"

	"golang.org/x/tools/go/ssa"
)

// recordFieldsIn: Record fields loaded in the operand tree of v (through
// calls' arguments, conversions, arithmetic).
func recFieldsByType(v ssa.Value, recT *types.Named, depth int, out map[string]bool) {
	if v == nil || depth > 6 {
		return
	}
	if f, base := loadedField(v); f != nil && base != nil {
		if pt, ok := base.Type().Underlying().(*types.Pointer); ok && types.Identical(pt.Elem(), recT) {
			out[f.Name()] = true
			return
		}
	}
	if ins, ok := v.(ssa.Instruction); ok {
		for _, op := range ins.Operands(nil) {
			if *op != nil {
				recFieldsByType(*op, recT, depth+1, out)
			}
		}
	}
}

// columnOf: the index k of the split field f[k] in the operand tree of v
// (11 for the aux tail f[11:]), -1 if none.
func columnOf(v ssa.Value, isSplit func(ssa.Value) bool, depth int) int {
	if v == nil || depth > 8 {
		return -1
	}
	switch x := v.(type) {
	case *ssa.IndexAddr:
		if isSplit(x.X) {
			if k, ok := constInt(x.Index); ok {
				return int(k)
			}
		}
		// element of the aux tail
		if sl, ok := x.X.(*ssa.Slice); ok && isSplit(sl.X) && sl.Low != nil {
			if k, ok := constInt(sl.Low); ok {
				return int(k)
			}
		}
	}
	if ins, ok := v.(ssa.Instruction); ok {
		for _, op := range ins.Operands(nil) {
			if *op == nil {
				continue
			}
			if k := columnOf(*op, isSplit, depth+1); k >= 0 {
				return k
			}
		}
	}
	return -1
}

func ruleColSam(c *Ctx, r *Rep, tier string) {
	rule := "COL-SAM"
	recT := c.Named("sam", "Record")
	wfn, rfn := c.Func("sam", "(*Record).MarshalSAM"), c.Func("sam", "(*Record).UnmarshalSAM")
	// writer: the Fprintf with the most verbs
	var wcall *ssa.Call
	var wverbs []string
	var wformat string
	allInstrs(wfn, func(ins ssa.Instruction) {
		call, ok := ins.(*ssa.Call)
		if !ok {
			return
		}
		if g := staticCallee(&call.Call); g == nil || g.Pkg == nil || g.Pkg.Pkg.Path() != "fmt" || g.Name() != "Fprintf" {
			return
		}
		format, ok := constStringOf(call.Call.Args[1])
		if !ok {
			return
		}
		vs := verbRE.FindAllString(format, -1)
		if len(vs) > len(wverbs) {
			wcall, wverbs, wformat = call, vs, format
		}
	})
	if wcall == nil {
		unresolved("sam.(*Record).MarshalSAM: no Fprintf")
	}
	wargs := varargElems(wcall.Call.Args[2])
	r.Instance(rule, 1)
	{
		why := ""
		seps := verbRE.Split(wformat, -1)
		if len(wverbs) != 11 || len(wargs) != 11 {
			why = fmt.Sprintf("the mandatory part has %d verbs and %d arguments, want 11", len(wverbs), len(wargs))
		}
		for i, s := range seps {
			want := "\t"
			if i == 0 || i == len(seps)-1 {
				want = ""
			}
			if s != want {
				why += fmt.Sprintf(" separator %d is %q;", i, s)
			}
		}
		r.Check(why == "", rule, "sam.(*Record).MarshalSAM#line-shape", c.Pos(wcall.Pos()), "eleven tab-separated columns", why)
	}
	wcols := make([]map[string]bool, len(wargs))
	for i, a := range wargs {
		wcols[i] = map[string]bool{}
		recFieldsByType(a, recT, 0, wcols[i])
	}
	// reader: f = bytes.Split(b, "\t"); which column feeds which field
	var split *ssa.Call
	allInstrs(rfn, func(ins ssa.Instruction) {
		if call, ok := ins.(*ssa.Call); ok && calleeFullName(&call.Call) == "bytes.Split" && split == nil {
			split = call
		}
	})
	if split == nil {
		unresolved("sam.(*Record).UnmarshalSAM: no bytes.Split")
	}
	isSplit := func(v ssa.Value) bool { return v == ssa.Value(split) }
	rcols := map[int]map[string]bool{}
	allInstrs(rfn, func(ins ssa.Instruction) {
		st, ok := ins.(*ssa.Store)
		if !ok {
			return
		}
		fname := ""
		if fa, ok := st.Addr.(*ssa.FieldAddr); ok {
			if pt, ok := fa.X.Type().Underlying().(*types.Pointer); ok && types.Identical(pt.Elem(), recT) {
				fname = fieldVarOfAddr(fa).Name()
			}
		}
		if ia, ok := st.Addr.(*ssa.IndexAddr); ok {
			// r.AuxFields[i] = a
			if f, _ := loadedField(ia.X); f != nil && f.Name() == "AuxFields" {
				fname = "AuxFields"
			}
		}
		if fname == "" {
			return
		}
		k := columnOf(st.Val, isSplit, 0)
		if k < 0 {
			return
		}
		if rcols[k] == nil {
			rcols[k] = map[string]bool{}
		}
		rcols[k][fname] = true
	})
	for k := 0; k < len(wargs); k++ {
		r.Instance(rule, 1)
		key := fmt.Sprintf("sam.(*Record).MarshalSAM/UnmarshalSAM#column-%d", k+1)
		var wf, rf []string
		for f := range wcols[k] {
			wf = append(wf, f)
		}
		for f := range rcols[k] {
			rf = append(rf, f)
		}
		sort.Strings(wf)
		sort.Strings(rf)
		ok := len(rf) > 0
		for _, f := range rf {
			if !wcols[k][f] {
				ok = false
			}
		}
		r.Check(ok, rule, key, c.Pos(wcall.Pos()), fmt.Sprintf("written from %v, parsed into %v", wf, rf), fmt.Sprintf("column %d is written from Record.%v but parsed into Record.%v", k+1, wf, rf))
	}
	// aux tail
	r.Instance(rule, 1)
	{
		auxLoop := false
		allInstrs(wfn, func(ins ssa.Instruction) {
			if call, ok := ins.(*ssa.Call); ok && call != wcall {
				if g := staticCallee(&call.Call); g != nil && g.Name() == "Fprintf" {
					if f, ok := constStringOf(call.Call.Args[1]); ok && strings.HasPrefix(f, "\t%") && inLoop(ins) {
						fs := map[string]bool{}
						for _, a := range varargElems(call.Call.Args[2]) {
							recFieldsByType(a, recT, 0, fs)
						}
						auxLoop = fs["AuxFields"]
					}
				}
			}
		})
		r.Check(auxLoop && rcols[11]["AuxFields"], rule, "sam.(*Record).MarshalSAM/UnmarshalSAM#aux-tail", c.Pos(wfn.Pos()), "aux fields appended tab-separated in order; parsed from f[11:] in order", fmt.Sprintf("aux tail: writer loop=%v, reader from f[11:]=%v", auxLoop, rcols[11]["AuxFields"]))
	}
	// field count guard
	r.Instance(rule, 1)
	{
		ok := false
		allInstrs(rfn, func(ins ssa.Instruction) {
			if bo, isBo := ins.(*ssa.BinOp); isBo && bo.Op == token.LSS && symKey(bo.X) == "len("+symKey(split)+")" {
				if k, isK := constInt(bo.Y); isK && int(k) == len(wverbs) {
					ok = true
				}
			}
		})
		r.Check(ok, rule, "sam.(*Record).UnmarshalSAM#min-fields", c.Pos(rfn.Pos()), "refuses lines with fewer than 11 columns", "the minimum column count tested by the parser is not the number of columns written")
	}
	// 1-based text positions: +1 when written, -1 when parsed
	for _, f := range []string{"Pos", "MatePos"} {
		r.Instance(rule, 1)
		plus := false
		for _, a := range wargs {
			if polyOf(strip(a), nil).eq(pAtom("$0."+f).add(pConst(1), 1)) {
				plus = true
			}
		}
		minus := false
		allInstrs(rfn, func(ins ssa.Instruction) {
			if st, ok := ins.(*ssa.Store); ok {
				if fa, ok := st.Addr.(*ssa.FieldAddr); ok && fieldVarOfAddr(fa).Name() == f {
					if polyOf(st.Val, nil).eq(pAtom("$0."+f).add(pConst(1), -1)) {
						minus = true
					}
				}
			}
		})
		r.Check(plus && minus, rule, "sam.(*Record)#"+f+"-one-based", c.Pos(wfn.Pos()), f+"+1 written, parsed value −1", fmt.Sprintf("%s: written as %s+1: %v; parsed value decremented: %v", f, f, plus, minus))
	}
	// qualities: +33 / −33 and the 0xff "absent" filler
	r.Instance(rule, 1)
	{
		fq := c.Func("sam", "formatQual")
		var add, sent int64 = -1, -1
		allInstrs(fq, func(ins ssa.Instruction) {
			if bo, ok := ins.(*ssa.BinOp); ok {
				if k, isK := constInt(bo.Y); isK {
					switch bo.Op {
					case token.ADD:
						add = k
					case token.NEQ, token.EQL:
						sent = k
					}
				}
			}
		})
		var sub, fill int64 = -1, -1
		allInstrs(rfn, func(ins ssa.Instruction) {
			st, ok := ins.(*ssa.Store)
			if !ok {
				return
			}
			ia, ok := st.Addr.(*ssa.IndexAddr)
			if !ok {
				return
			}
			if f, _ := loadedField(ia.X); f == nil || f.Name() != "Qual" {
				return
			}
			if bo, ok := st.Val.(*ssa.BinOp); ok && bo.Op == token.SUB {
				sub, _ = constInt(bo.Y)
			}
			if k, ok := constInt(st.Val); ok {
				fill = k
			}
		})
		why := ""
		if add != 33 || sub != add {
			why += fmt.Sprintf(" qualities are written +%d and parsed −%d (Phred+33);", add, sub)
		}
		if sent != fill || sent != 255 {
			why += fmt.Sprintf(" absent qualities: the writer prints * for %d, the parser fills %d;", sent, fill)
		}
		r.Check(why == "", rule, "sam.formatQual/UnmarshalSAM#phred33", c.Pos(fq.Pos()), "+33/−33, 0xff ↔ *", why)
	}
	// flags are parsed with base 0 into 16 bits: decimal and 0x… both accepted
	r.Instance(rule, 1)
	{
		ok := false
		allInstrs(rfn, func(ins ssa.Instruction) {
			if call, isC := ins.(*ssa.Call); isC && calleeFullName(&call.Call) == "strconv.ParseUint" && columnOf(call, isSplit, 0) == 1 {
				b, _ := constInt(call.Call.Args[1])
				bits, _ := constInt(call.Call.Args[2])
				ok = b == 0 && bits == 16
			}
		})
		r.Check(ok, rule, "sam.(*Record).UnmarshalSAM#flags-base", c.Pos(rfn.Pos()), "ParseUint(f[1], 0, 16): decimal and hexadecimal flags", "flags are not parsed with base 0 into 16 bits: one of the two flag formats the writer offers cannot be read back")
	}
}

// ruleAbsentForms (ABSENT-FORMS): the special spellings. RNEXT is "=" exactly
// when the mate reference is set and *is* the read's reference (pointer
// identity, evaluated over all identity patterns of nil/A/B – an id comparison
// equates all unowned references, whose id is -1); the CIGAR/sequence
// consistency test is applied only when a sequence is present, because the
// writer prints "*" for an absent sequence whatever the CIGAR. Added after a
// second, blind round of seeds missed both.
func ruleAbsentForms(c *Ctx, r *Rep, tier string) {
	rule := "ABSENT-FORMS"
	fm := c.Func("sam", "formatMate")
	r.Instance(rule, 1)
	{
		why := ""
		n := 0
		for _, ref := range []int64{0, 1, 2} {
			for _, mate := range []int64{0, 1, 2} {
				n++
				sr := symExec(fm, map[string]int64{paramKey(fm.Params[0]): ref, paramKey(fm.Params[1]): mate})
				if sr.Undec != "" {
					why = "whether RNEXT is written as = depends on " + sr.Undec + ", not on the identity of the two references alone (ids are -1 for every reference that is not in a header, so an id comparison equates them)"
					break
				}
				want := mate != 0 && ref == mate
				got := len(sr.RetKeys) == 1 && sr.RetKeys[0] == `"="`
				if got != want {
					why += fmt.Sprintf(" ref=%d mate=%d (0 = nil): '=' written: %v, want %v;", ref, mate, got, want)
				}
				if !want && len(sr.RetKeys) == 1 && sr.RetKeys[0] != paramKey(fm.Params[1])+".Name()" && !got {
					why += " the mate is written as " + sr.RetKeys[0] + ", not mate.Name();"
				}
			}
		}
		r.Check(why == "", rule, "sam.formatMate#identity", c.Pos(fm.Pos()), fmt.Sprintf("%d identity patterns: '=' iff mate != nil and mate is ref; otherwise mate.Name()", n), why)
	}
	// the parser side of "=": a store MateRef = Ref under the "=" / same-name test
	rfn := c.Func("sam", "(*Record).UnmarshalSAM")
	r.Instance(rule, 1)
	{
		ok := false
		allInstrs(rfn, func(ins ssa.Instruction) {
			if st, isSt := ins.(*ssa.Store); isSt {
				if fa, isFa := st.Addr.(*ssa.FieldAddr); isFa && fieldVarOfAddr(fa).Name() == "MateRef" {
					if f, _ := loadedField(st.Val); f != nil && f.Name() == "Ref" {
						ok = true
					}
				}
			}
		})
		r.Check(ok, rule, "sam.(*Record).UnmarshalSAM#mate-equals", c.Pos(rfn.Pos()), "'=' (or the same name) makes MateRef the same Reference as Ref", "the parser never makes MateRef identical to Ref: a line written with '=' does not come back with ref == mate")
	}
	// IsValid only with a sequence
	r.Instance(rule, 1)
	{
		var split *ssa.Call
		allInstrs(rfn, func(ins ssa.Instruction) {
			if call, ok := ins.(*ssa.Call); ok && calleeFullName(&call.Call) == "bytes.Split" && split == nil {
				split = call
			}
		})
		isSplit := func(v ssa.Value) bool { return split != nil && v == ssa.Value(split) }
		// the edge "f[9] is not *"
		type edge struct {
			b *ssa.BasicBlock
			k int
		}
		var present []edge
		for _, b := range rfn.Blocks {
			iff := ifOf(b)
			if iff == nil {
				continue
			}
			cond := iff.Cond
			neg := false
			if u, ok := cond.(*ssa.UnOp); ok && u.Op == token.NOT {
				cond, neg = u.X, true
			}
			call, ok := cond.(*ssa.Call)
			if !ok || calleeFullName(&call.Call) != "bytes.Equal" || columnOf(call.Call.Args[0], isSplit, 0) != 9 {
				continue
			}
			if !strings.Contains(symKey(call.Call.Args[1]), "42") && !strings.Contains(symKey(call.Call.Args[1]), "slicelit") {
				continue
			}
			k := 1 // Equal false → sequence present
			if neg {
				k = 0
			}
			present = append(present, edge{b, k})
		}
		why := ""
		nv := 0
		allInstrs(rfn, func(ins ssa.Instruction) {
			call, ok := ins.(*ssa.Call)
			if !ok {
				return
			}
			if g := staticCallee(&call.Call); g == nil || g.Name() != "IsValid" {
				return
			}
			nv++
			dom := false
			for _, e := range present {
				if dominatedByEdge(rfn, e.b, e.k, call.Block()) {
					dom = true
				}
			}
			if !dom && seqLengthNonZeroAt(c, rfn, call.Block()) {
				dom = true // the guard written on the length (SEQ-ABSENT decides the general case)
			}
			if !dom {
				why = fmt.Sprintf("the CIGAR/sequence length test at %s also runs when SEQ is *: records without a stored sequence but with a query-consuming CIGAR (secondary alignments), which MarshalSAM and BAM produce, are refused", c.Pos(call.Pos()))
			}
		})
		if len(present) == 0 {
			why = "the test 'SEQ is *' was not found"
		}
		r.Check(why == "", rule, "sam.(*Record).UnmarshalSAM#cigar-check-needs-seq", c.Pos(rfn.Pos()), fmt.Sprintf("%d CIGAR/sequence consistency test(s), all under 'SEQ present'", nv), why)
	}
}

// ---- FMT-STRINGER ---------------------------------------------------------------------------------------

func hasStringMethod(t types.Type) bool {
	for _, tt := range []types.Type{t, types.NewPointer(t)} {
		ms := types.NewMethodSet(tt)
		for i := 0; i < ms.Len(); i++ {
			m := ms.At(i).Obj()
			if m.Name() == "String" {
				if sig, ok := m.Type().(*types.Signature); ok && sig.Params().Len() == 0 && sig.Results().Len() == 1 {
					return true
				}
			}
		}
	}
	return false
}

func ruleFmtStringer(c *Ctx, r *Rep, tier string) {
	rule := "FMT-STRINGER"
	n := 0
	for _, fn := range c.FuncsIn("sam") {
		fn := fn
		allInstrs(fn, func(ins ssa.Instruction) {
			call, ok := ins.(*ssa.Call)
			if !ok {
				return
			}
			g := staticCallee(&call.Call)
			if g == nil || g.Pkg == nil || g.Pkg.Pkg.Path() != "fmt" {
				return
			}
			fi := -1
			switch g.Name() {
			case "Sprintf", "Errorf":
				fi = 0
			case "Fprintf":
				fi = 1
			}
			if fi < 0 || len(call.Call.Args) <= fi+1 {
				return
			}
			format, ok := constStringOf(call.Call.Args[fi])
			if !ok {
				return
			}
			verbs := verbRE.FindAllString(strings.ReplaceAll(format, "%%", ""), -1)
			args := varargElems(call.Call.Args[fi+1])
			if len(verbs) != len(args) {
				return
			}
			for i, v := range verbs {
				switch v[len(v)-1] {
				case 'x', 'X', 'd', 'o', 'b', 'c', 'e', 'f', 'g':
				default:
					continue
				}
				mi, ok := args[i].(*ssa.MakeInterface)
				if !ok {
					continue
				}
				n++
				r.Instance(rule, 1)
				key := fmt.Sprintf("%s#%s(%s)", c.FnName(fn), v, symKey(mi.X))
				bad := hasStringMethod(mi.X.Type())
				r.Check(!bad, rule, key, c.Pos(call.Pos()), "the operand of "+v+" has no String method", fmt.Sprintf("%s is applied to a %s, which has a String method: fmt formats the text String returns, not the number", v, mi.X.Type()))
			}
		})
	}
	if n == 0 {
		r.Instance(rule, 1)
		r.Fail(rule, "sam#numeric-verbs", "sam", "no numeric verb with a typed operand found")
	}
}

// ---- AUX-TYPED-VIEW and TAB-AUXTEXT -----------------------------------------------------------------------------

func ruleAuxTypedView(c *Ctx, r *Rep, tier string) {
	rule := "AUX-TYPED-VIEW"
	for _, name := range []string{"(samAux).String", "(Aux).String"} {
		fn := c.Func("sam", name)
		r.Instance(rule, 1)
		why := ""
		isAux := func(v ssa.Value) bool {
			t := v.Type()
			if pt, ok := t.Underlying().(*types.Pointer); ok {
				t = pt.Elem()
			}
			n, ok := t.(*types.Named)
			return ok && (n.Obj().Name() == "Aux" || n.Obj().Name() == "samAux")
		}
		allInstrs(fn, func(ins ssa.Instruction) {
			switch x := ins.(type) {
			case *ssa.Slice:
				if !isAux(x.X) {
					return
				}
				hi, okH := int64(-1), false
				if x.High != nil {
					hi, okH = constInt(x.High)
				}
				if x.Low != nil || !okH || hi != 2 {
					// the payload of a text type (H: hexadecimal digits, Z: characters)
					// is the text itself: a[3:] under the case for that type letter
					if lo, okL := constInt(x.Low); x.Low != nil && okL && lo == 3 && x.High == nil && underTextCase(fn, x.Block()) {
						return
					}
					why += fmt.Sprintf(" %s at %s takes payload bytes of the aux field directly;", symKey(x), c.Pos(x.Pos()))
				}
			case *ssa.IndexAddr:
				if !isAux(x.X) {
					return
				}
				if k, ok := constInt(x.Index); !ok || k != 3 {
					why += fmt.Sprintf(" %s at %s reads a payload byte of the aux field directly;", symKey(x), c.Pos(x.Pos()))
				}
			case *ssa.Index:
				if !isAux(x.X) {
					return
				}
				if k, ok := constInt(x.Index); !ok || k != 3 {
					why += fmt.Sprintf(" %s at %s reads a payload byte of the aux field directly;", symKey(x), c.Pos(x.Pos()))
				}
			case *ssa.Range:
				if isAux(x.X) {
					why += " ranges over the raw bytes of the aux field;"
				}
			}
		})
		r.Check(why == "", rule, "sam."+name+"#payload", c.Pos(fn.Pos()), "only the tag a[:2], the subtype a[3], Kind() and the typed Value() are printed", "the text formatter bypasses the typed view of the value (Value() decodes width and signedness from the type letter; raw bytes are unsigned):"+why)
	}
}

// underTextCase: the block is reached only over the "equal" edge of a
// comparison with the type letter 'H' or 'Z'.
func underTextCase(fn *ssa.Function, at *ssa.BasicBlock) bool {
	for _, b := range fn.Blocks {
		iff := ifOf(b)
		if iff == nil || b.Succs[0] == b.Succs[1] {
			continue
		}
		bo, ok := iff.Cond.(*ssa.BinOp)
		if !ok || (bo.Op != token.EQL && bo.Op != token.NEQ) {
			continue
		}
		k, isK := constInt(bo.Y)
		if !isK || (k != 'H' && k != 'Z') {
			continue
		}
		edge := 0
		if bo.Op == token.NEQ {
			edge = 1
		}
		if dominatedByEdge(fn, b, edge, at) {
			return true
		}
	}
	return false
}

func ruleTabAuxText(c *Ctx, r *Rep, tier string) {
	rule := "TAB-AUXTEXT"
	fn := c.Func("sam", "ParseAux")
	// auxKind table from the syntax
	kinds := map[byte]byte{}
	for _, f := range c.ByPath["sam"].Syntax {
		ast.Inspect(f, func(n ast.Node) bool {
			vs, ok := n.(*ast.ValueSpec)
			if !ok || len(vs.Names) != 1 || vs.Names[0].Name != "auxKind" || len(vs.Values) != 1 {
				return true
			}
			cl, ok := vs.Values[0].(*ast.CompositeLit)
			if !ok {
				return true
			}
			for _, e := range cl.Elts {
				kv, ok := e.(*ast.KeyValueExpr)
				if !ok {
					continue
				}
				k, ok1 := kv.Key.(*ast.BasicLit)
				v, ok2 := kv.Value.(*ast.BasicLit)
				if ok1 && ok2 && k.Kind == token.CHAR && v.Kind == token.CHAR {
					ks, _ := strconv.Unquote(k.Value)
					vs, _ := strconv.Unquote(v.Value)
					if len(ks) == 1 && len(vs) == 1 {
						kinds[ks[0]] = vs[0]
					}
				}
			}
			return true
		})
	}
	if len(kinds) < 10 {
		unresolved("sam.auxKind: %d entries", len(kinds))
	}
	// the switches of ParseAux: comparisons of a loaded byte with a character constant
	outer, inner := map[byte]*ssa.BasicBlock{}, map[byte]*ssa.BasicBlock{}
	for _, b := range fn.Blocks {
		iff := ifOf(b)
		if iff == nil {
			continue
		}
		bo, ok := iff.Cond.(*ssa.BinOp)
		if !ok || bo.Op != token.EQL {
			continue
		}
		k, isK := constInt(bo.Y)
		if !isK || k < 'A' || k > 'z' {
			continue
		}
		key := symKey(bo.X)
		switch {
		case key == "$0[3]":
			outer[byte(k)] = b
		case strings.HasSuffix(key, "[5:][0]"):
			inner[byte(k)] = b
		}
	}
	setOf := func(m map[byte]*ssa.BasicBlock) string {
		var s []string
		for k := range m {
			s = append(s, string(rune(k)))
		}
		sort.Strings(s)
		return strings.Join(s, "")
	}
	// text type letters = the kinds the formatter can emit
	r.Instance(rule, 1)
	{
		ks := map[byte]bool{}
		for _, v := range kinds {
			ks[v] = true
		}
		var s []string
		for k := range ks {
			s = append(s, string(rune(k)))
		}
		sort.Strings(s)
		want := strings.Join(s, "")
		r.Check(setOf(outer) == want, rule, "sam.ParseAux#type-letters", c.Pos(fn.Pos()), "text type letters accepted = kinds the formatter emits = "+want, fmt.Sprintf("ParseAux accepts the type letters %q, the formatter's Kind table emits %q", setOf(outer), want))
	}
	// array subtype letters and their element types
	spec := map[byte]struct {
		fn   string
		bits int64
		elem string
	}{
		'c': {"ParseInt", 8, "int8"}, 'C': {"ParseUint", 8, "uint8"},
		's': {"ParseInt", 16, "int16"}, 'S': {"ParseUint", 16, "uint16"},
		'i': {"ParseInt", 32, "int32"}, 'I': {"ParseUint", 32, "uint32"},
		'f': {"ParseFloat", 32, "float32"},
	}
	r.Instance(rule, 1)
	r.Check(setOf(inner) == "CIScfis", rule, "sam.ParseAux#array-subtypes", c.Pos(fn.Pos()), "array subtypes c C s S i I f", fmt.Sprintf("array subtypes accepted: %q, want cCsSiIf", setOf(inner)))
	var letters []int
	for l := range inner {
		letters = append(letters, int(l))
	}
	sort.Ints(letters)
	for _, li := range letters {
		l := byte(li)
		b := inner[l]
		r.Instance(rule, 1)
		key := fmt.Sprintf("sam.ParseAux#B:%c", l)
		sp, ok := spec[l]
		why := ""
		if !ok {
			why = "not a subtype of the specification"
		} else {
			gotFn, gotBits, gotElem := "", int64(-1), ""
			for _, x := range fn.Blocks {
				if !dominatedByEdge(fn, b, 0, x) {
					continue
				}
				for _, ins := range x.Instrs {
					switch y := ins.(type) {
					case *ssa.Call:
						if g := staticCallee(&y.Call); g != nil && g.Pkg != nil && g.Pkg.Pkg.Path() == "strconv" {
							gotFn = g.Name()
							gotBits, _ = constInt(y.Call.Args[len(y.Call.Args)-1])
						}
					case *ssa.MakeSlice:
						gotElem = y.Type().Underlying().(*types.Slice).Elem().String()
					}
				}
			}
			if gotFn != sp.fn || gotBits != sp.bits || gotElem != sp.elem {
				why = fmt.Sprintf("B:%c elements are parsed with %s(…, %d) into []%s, the specification says %s, %d bits, []%s", l, gotFn, gotBits, gotElem, sp.fn, sp.bits, sp.elem)
			}
		}
		r.Check(why == "", rule, key, c.Pos(b.Instrs[len(b.Instrs)-1].Pos()), fmt.Sprintf("%s, %d bits, []%s", sp.fn, sp.bits, sp.elem), why)
	}
	// CIGAR letters: the format table and the parse table list the same letters in the same order
	r.Instance(rule, 1)
	{
		var fmtLetters, parseLetters []string
		for _, f := range c.ByPath["sam"].Syntax {
			ast.Inspect(f, func(n ast.Node) bool {
				switch x := n.(type) {
				case *ast.ValueSpec:
					if len(x.Names) == 1 && x.Names[0].Name == "cigarOps" && len(x.Values) == 1 {
						if cl, ok := x.Values[0].(*ast.CompositeLit); ok {
							for _, e := range cl.Elts {
								if bl, ok := e.(*ast.BasicLit); ok {
									s, _ := strconv.Unquote(bl.Value)
									fmtLetters = append(fmtLetters, s)
								}
							}
						}
					}
				case *ast.RangeStmt:
					// for op, c := range []byte{'M', …} { cigarOpTypeLookup[c] = CigarOpType(op) }
					cl, ok := x.X.(*ast.CompositeLit)
					if !ok || len(x.Body.List) != 1 {
						return true
					}
					as, ok := x.Body.List[0].(*ast.AssignStmt)
					if !ok || len(as.Lhs) != 1 {
						return true
					}
					ie, ok := as.Lhs[0].(*ast.IndexExpr)
					if !ok {
						return true
					}
					if id, ok := ie.X.(*ast.Ident); !ok || id.Name != "cigarOpTypeLookup" {
						return true
					}
					for _, e := range cl.Elts {
						if bl, ok := e.(*ast.BasicLit); ok {
							s, _ := strconv.Unquote(bl.Value)
							parseLetters = append(parseLetters, s)
						}
					}
				}
				return true
			})
		}
		why := ""
		if len(parseLetters) < 9 || len(fmtLetters) < len(parseLetters) {
			why = fmt.Sprintf("tables not found (format %v, parse %v)", fmtLetters, parseLetters)
		} else {
			for i, l := range parseLetters {
				if fmtLetters[i] != l {
					why += fmt.Sprintf(" op %d is written %q and parsed from %q;", i, fmtLetters[i], l)
				}
			}
		}
		r.Check(why == "", rule, "sam.cigarOps/cigarOpTypeLookup#letters", "sam/cigar.go", fmt.Sprintf("%d operations: same letter in both directions", len(parseLetters)), why)
	}
}

// ---- LINE-READER ---------------------------------------------------------------------------------------------------

// bufioViews: bufio.Reader methods whose result aliases the reader's buffer.
var bufioViews = map[string]bool{"ReadSlice": true, "ReadLine": true, "Peek": true}

// ownLineViolations: values obtained from a view-returning bufio method that are
// appended to, or handed to a callee, in fn.
func ownLineViolations(c *Ctx, fn *ssa.Function) []string {
	var out []string
	allInstrs(fn, func(ins ssa.Instruction) {
		call, ok := ins.(*ssa.Call)
		if !ok {
			return
		}
		g := staticCallee(&call.Call)
		if g == nil || g.Pkg == nil || g.Pkg.Pkg.Path() != "bufio" || !bufioViews[g.Name()] {
			return
		}
		// uses of the []byte result
		var uses func(v ssa.Value, depth int)
		seen := map[ssa.Value]bool{}
		uses = func(v ssa.Value, depth int) {
			if depth > 6 || seen[v] || v.Referrers() == nil {
				return
			}
			seen[v] = true
			for _, u := range *v.Referrers() {
				switch x := u.(type) {
				case *ssa.Extract:
					if x.Index == 0 {
						uses(x, depth+1)
					}
				case *ssa.Phi:
					uses(x, depth+1)
				case *ssa.Slice:
					uses(x, depth+1)
				case *ssa.Call:
					if cc, ok := isBuiltinCall(x, "append"); ok && len(cc.Args) > 0 && cc.Args[0] == v {
						out = append(out, fmt.Sprintf("the slice returned by bufio's %s at %s aliases the reader's buffer and is appended to at %s: the append writes into the buffer's spare capacity and corrupts data not yet read", g.Name(), c.Pos(call.Pos()), c.Pos(x.Pos())))
					}
				case *ssa.Store:
					if x.Val == v {
						if _, isField := x.Addr.(*ssa.FieldAddr); isField {
							out = append(out, fmt.Sprintf("the slice returned by bufio's %s at %s is retained in a field at %s", g.Name(), c.Pos(call.Pos()), c.Pos(x.Pos())))
						}
					}
				}
			}
		}
		uses(call, 0)
	})
	return out
}

func ruleLineReader(c *Ctx, r *Rep, tier string) {
	rule := "LINE-READER"
	fn := c.Func("sam", "(*Reader).Read")
	// the line comes from an owning read
	r.Instance(rule, 1)
	var rb *ssa.Call
	allInstrs(fn, func(ins ssa.Instruction) {
		if call, ok := ins.(*ssa.Call); ok {
			if g := staticCallee(&call.Call); g != nil && g.Pkg != nil && g.Pkg.Pkg.Path() == "bufio" && (g.Name() == "ReadBytes" || g.Name() == "ReadString") {
				rb = call
			}
		}
	})
	viol := ownLineViolations(c, fn)
	why := strings.Join(viol, "; ")
	if rb == nil && why == "" {
		why = "the line is not obtained with ReadBytes/ReadString"
	}
	pos := c.Pos(fn.Pos())
	r.Check(why == "", rule, "sam.(*Reader).Read#own-line", pos, "the line is a fresh copy (ReadBytes); no buffer view is appended to or retained", why)
	if rb == nil {
		return
	}
	lineKey, errKey := symKey(rb)+"#0", symKey(rb)+"#1"
	// error / last line classification, over (err ∈ nil, io.EOF, other) × (len ∈ 0, 3)
	r.Instance(rule, 1)
	{
		why := ""
		for _, e := range []int64{0, 1, 2} {
			for _, n := range []int64{0, 3} {
				env := map[string]int64{errKey: e, "io.EOF": 1, "len(" + lineKey + ")": n}
				sr := symExecAt(fn, locOf(rb), func(i ssa.Instruction) bool {
					// stop at the first use of the line beyond the classification
					_, isPhi := i.(*ssa.Phi)
					_, isSlice := i.(*ssa.Slice)
					return isPhi || isSlice
				}, env)
				if sr.Undec != "" {
					why = "classification depends on " + sr.Undec
					break
				}
				returned := sr.Stopped == nil
				want := e == 2 || (e == 1 && n == 0)
				if returned != want {
					what := map[int64]string{0: "nil", 1: "io.EOF", 2: "another error"}[e]
					if returned {
						why += fmt.Sprintf(" with err = %s and %d bytes read the line is dropped (a final line without newline is a record);", what, n)
					} else {
						why += fmt.Sprintf(" with err = %s and %d bytes read the error is ignored;", what, n)
					}
				}
			}
		}
		r.Check(why == "", rule, "sam.(*Reader).Read#last-line", c.Pos(rb.Pos()), "returns the read error unless it is io.EOF after a non-empty line", why)
	}
	// the newline is cut only when there was one; the CR only when the line is non-empty and ends in one
	r.Instance(rule, 1)
	{
		why := ""
		nlCut := 0
		allInstrs(fn, func(ins ssa.Instruction) {
			sl, ok := ins.(*ssa.Slice)
			if !ok || sl.High == nil || sl.Low != nil {
				return
			}
			base := symKey(sl.X)
			if !polyOf(sl.High, nil).eq(pAtom("len("+base+")").add(pConst(1), -1)) {
				why += fmt.Sprintf(" %s at %s is not 'drop the last byte';", symKey(sl), c.Pos(sl.Pos()))
				return
			}
			if base == lineKey {
				nlCut++
				// on the err == nil edge
				ok := false
				for _, b := range fn.Blocks {
					ce, isC := classifyErrIf(b, func(v ssa.Value) bool { return symKey(v) == errKey })
					if isC && ce.isNil && dominatedByEdge(fn, b, ce.yes, sl.Block()) {
						ok = true
					}
				}
				if !ok {
					why += " the last byte is cut although ReadBytes may have returned a final line without newline (its last character is lost);"
				}
				return
			}
			// the CR cut: under len != 0 and last byte == '\r'
			g1, g2 := false, false
			for _, b := range fn.Blocks {
				iff := ifOf(b)
				if iff == nil {
					continue
				}
				bo, ok := iff.Cond.(*ssa.BinOp)
				if !ok {
					continue
				}
				if bo.Op == token.NEQ && symKey(bo.X) == "len("+base+")" {
					if k, ok := constInt(bo.Y); ok && k == 0 && dominatedByEdge(fn, b, 0, sl.Block()) {
						g1 = true
					}
				}
				if bo.Op == token.EQL {
					if k, ok := constInt(bo.Y); ok && k == '\r' && dominatedByEdge(fn, b, 0, sl.Block()) {
						g2 = true
					}
				}
			}
			if !g1 || !g2 {
				why += fmt.Sprintf(" the carriage-return cut at %s is not guarded by 'non-empty and ends in \\r' (non-empty=%v, CR=%v);", c.Pos(sl.Pos()), g1, g2)
			}
		})
		if nlCut != 1 {
			why += fmt.Sprintf(" %d newline cuts found, want 1;", nlCut)
		}
		r.Check(why == "", rule, "sam.(*Reader).Read#line-ends", c.Pos(fn.Pos()), "newline cut on the err == nil edge only; CR cut under non-empty ∧ last == '\\r'", why)
	}
}

func ruleLineReaderCanary(c *Ctx, r *Rep) {
	rule := "LINE-READER"
	for _, name := range []string{"(*Lines).Next", "(*Lines).NextOwned"} {
		fn := c.Func("bufc", name)
		r.Instance(rule, 1)
		v := ownLineViolations(c, fn)
		r.Check(len(v) == 0, rule, "bufc."+name+"#own-line", c.Pos(fn.Pos()), "no buffer view is appended to", strings.Join(v, "; "))
	}
}

func init() {
	register(&PropDef{
		ID: "C06", Title: "SAM text round trip, and SAM and BAM views of a record agree", Level: "other",
		Rules: []RuleDef{
			{Name: "COL-SAM", What: "MarshalSAM's eleven columns and aux tail are parsed by UnmarshalSAM into the fields they were written from; ±1 for the 1-based positions; Phred+33 and the 0xff filler; 11-column guard; base-0 flags", Floor: 18, Run: ruleColSam},
			{Name: "ABSENT-FORMS", What: "RNEXT '=' iff the mate reference is the read's reference (all identity patterns); the CIGAR/sequence test only with a sequence present (added after a blind second seed round)", Floor: 3, Run: ruleAbsentForms},
			{Name: "FMT-STRINGER", What: "no numeric fmt verb is applied to a value with a String method in package sam", Floor: 5, Run: ruleFmtStringer},
			{Name: "AUX-TYPED-VIEW", What: "aux text formatting prints only the tag, the type letters and the typed Value(), never raw payload bytes", Floor: 2, Run: ruleAuxTypedView},
			{Name: "AUX-EMPTY", What: "sam.ParseAux lets a five-byte field (an empty value) through to the Z and H cases: the guards on the way demand no more (added for a defect of the unchanged tree, repaired 6d77b09)", Floor: 1, Run: ruleAuxEmpty},
			{Name: "PATH-AUXALL", What: "bam.buildAux serialises every aux field of the record, the empty-valued ones too: a field that is left out is missing from the SAM line of the record read back (shared with C05; under C06 since ninth-round seed C06-j)", Floor: 1, Run: ruleAuxAll},
			{Name: "SCAN-LIMIT", What: "no parser of package sam reads lines through a bufio.Scanner with the default 64 KiB token limit: a header line may be longer (shared with C07; here since thirteenth-round seed C05-n)", Floor: 0, Run: ruleScanLimit([]string{"sam"})},
			{Name: "HEX-TEXT", What: "an H field holds hexadecimal text: NewAux hex-encodes a Hex value, Aux.Value decodes, the formatters print the text without a hexadecimal verb (shared with C05; added for a defect of the unchanged tree, repaired 38d8749)", Floor: 4, Run: ruleHexText},
			{Name: "TAB-AUXTEXT", What: "ParseAux's type letters = the formatter's kinds; array subtypes and their widths/signedness = the specification's; CIGAR letters agree between format and parse tables", Floor: 10, Run: ruleTabAuxText},
			{Name: "LINE-READER", What: "sam.Reader.Read: owned line buffer, read-error/last-line classification over all cases, newline and CR cuts under the right guards", Floor: 3, Run: ruleLineReader, Canary: ruleLineReaderCanary, WantFail: []string{"bufc.(*Lines).Next#own-line"}, WantPassMin: 1},
			{Name: "HEADER-LAST-LINE", What: "sam.NewReader compares an error from the header loop's ReadBytes with io.EOF before it gives up: the last header line of an input without records may lack the newline (added for a defect of the unchanged tree)", Floor: 1, Run: ruleHeaderLastLine},
			{Name: "TAB-CONSUME", What: "CIGAR consumption table and op letters equal the SAM specification's", Floor: 10, Run: ruleTabConsume},
			{Name: "CIGAR-SPLIT", What: "sam.ParseCigar, splitting a length above 2^28−1: what is left after a piece was taken off is shown positive before an operation is made from it – no zero-length operation is invented, so the CIGAR column reads back as it was written (shared with C16; added after seventh-round seeds C06-h, C16-h)", Floor: 2, Run: ruleCigarSplit},
			{Name: "SHARED-STATE", What: "package sam keeps no package-level state that a call writes, and nothing a formatter returns is backed by a pooled object: the line MarshalSAM returned stays the text of its record (added after fifteenth-round seed C06-q: the scratch buffer from a sync.Pool, its bytes returned)", Floor: 5, Run: ruleSharedState([]string{"sam"})},
			{Name: "SEQ-ABSENT", What: "Cigar.IsValid(Seq.Length) is asked only where the sequence is present: a record with a CIGAR and SEQ \"*\" parses and formats (added after thirteenth-round seed C06-n)", Floor: 1, Run: ruleSeqAbsent},
			{Name: "CIGAR-ITEMWISE", What: "what Cigar.String writes for one operation depends on that operation only: no argument of a call inside its loop carries a value round the loop other than the cursor that indexes the list – a formatter that merges or reorders operations does not give text that parses back to the same list (added after fifteenth-round seed C06-p, first left unreported)", Floor: 1, Run: ruleCigarItemwise},
			{Name: "CIGAR-EVERY-OP", What: "ParseCigar makes at least one operation for every operation of the text, one of length 0 included (added after eleventh-round seed C06-l)", Floor: 1, Run: ruleCigarEveryOp},
			{Name: "PARSE-WIDTH", What: "every strconv.ParseInt/ParseUint in package sam is given the bit size of the type its result is converted to (flags 16, mapping quality 8, the aux integer types): a smaller size refuses values the formatter prints (shared with C19; added after seventh-round seed C19-g)", Floor: 8, Run: ruleParseWidth([]string{"sam"}, 8)},
			{Name: "PATH-SHARED", What: "a BAM record buffer whose data aliases memory the Reader will reuse is marked shared, so that the record's fields are copies: a record held across the next Read keeps its SAM line (shared with C05; under C06 since seventh-round seed C06-g)", Floor: 1, Run: ruleBufShared},
			{Name: "TAB-NIBBLE", What: "base code tables are mutually inverse and equal \"=ACMGRSVTWYHKDBN\"; contract/Expand use the high nibble for even positions", Floor: 18, Run: ruleNibble},
		},
		Explanation: "A SAM line is eleven columns and a tail of aux fields; round trip needs the writer and the parser to agree, column by column, on the Record field, the offset (1-based positions, Phred+33) and the absent-value spelling, and needs every typed value to be printed through its typed view. COL-SAM lays the two column→field maps side by side; FMT-STRINGER, AUX-TYPED-VIEW and TAB-AUXTEXT cover the ways a value can be printed as something other than itself (a Stringer caught by a numeric verb, raw bytes printed unsigned, a subtype parsed with the wrong width); LINE-READER decides the reader's handling of the last line, CRLF and buffer ownership over all cases of (error, length).",
		NotDecided:  "float formatting (%v of float32 and ParseFloat being inverse is a property of strconv), '=' and '*' spellings beyond the constants compared, equality of the SAM and BAM views (C05 covers the BAM side), ParseCigar on malformed text.",
	})
}
