// C01 / C12: cursor accounting in the BGZF writer and count reader, and
// bam.NewWriter's header durability sequence.
package main

import (
	"fmt"
	"go/token"

	"golang.org/x/tools/go/ssa"
)

func dependsOn(v ssa.Value, target ssa.Value, depth int) bool {
	if v == target {
		return true
	}
	if depth > 8 {
		return false
	}
	switch x := v.(type) {
	case *ssa.BinOp:
		return dependsOn(x.X, target, depth+1) || dependsOn(x.Y, target, depth+1)
	case *ssa.Convert:
		return dependsOn(x.X, target, depth+1)
	case *ssa.ChangeType:
		return dependsOn(x.X, target, depth+1)
	case *ssa.Phi:
		for _, e := range x.Edges {
			if e != v && dependsOn(e, target, depth+1) {
				return true
			}
		}
	case *ssa.Extract:
		return dependsOn(x.Tuple, target, depth+1)
	}
	return false
}

// ruleCurWrite: in Writer.Write the number of bytes copied into the block
// advances the source slice, the block cursor and the returned count together,
// and the copy lands at the block cursor.
func ruleCurWrite(c *Ctx, r *Rep, tier string) {
	rule := "CUR-WRITE"
	fn := c.Func("bgzf", "(*Writer).Write")
	fNext := c.Field("bgzf", "compressor", "next")
	fBlock := c.Field("bgzf", "compressor", "block")
	var copies []*ssa.Call
	allInstrs(fn, func(ins ssa.Instruction) {
		if call, ok := ins.(*ssa.Call); ok {
			if _, isCopy := isBuiltinCall(call, "copy"); isCopy {
				copies = append(copies, call)
			}
		}
	})
	r.Instance(rule, len(copies))
	if len(copies) != 1 {
		r.Fail(rule, "bgzf.(*Writer).Write#copy", c.Pos(fn.Pos()), fmt.Sprintf("%d copy calls, expected one: undecided", len(copies)))
		return
	}
	cp := copies[0]
	why := ""
	// destination: c.block[c.next:]
	dst, ok := strip(cp.Call.Args[0]).(*ssa.Slice)
	if !ok {
		why += " destination is not a slice of the block;"
	} else {
		fa, isFa := dst.X.(*ssa.FieldAddr)
		if !isFa || fieldVarOfAddr(fa) != fBlock {
			why += " destination is not compressor.block;"
		}
		if f, _ := loadedField(dst.Low); dst.Low == nil || f != fNext || dst.High != nil {
			why += " the copy does not start at the block cursor (block[next:]);"
		}
	}
	src := strip(cp.Call.Args[1])
	// updates, all in blocks dominated by the copy and on every path to the loop test
	var sliceOK, nextOK, nOK bool
	allInstrs(fn, func(ins ssa.Instruction) {
		switch x := ins.(type) {
		case *ssa.Slice:
			if strip(x.X) == src && x.Low == ssa.Value(cp) && x.High == nil && x.Block() == cp.Block() {
				sliceOK = true
			}
		case *ssa.Store:
			if fa, isFa := x.Addr.(*ssa.FieldAddr); isFa && fieldVarOfAddr(fa) == fNext && x.Block() == cp.Block() {
				if bo, isB := x.Val.(*ssa.BinOp); isB && bo.Op == token.ADD {
					f, _ := loadedField(bo.X)
					if f == fNext && bo.Y == ssa.Value(cp) {
						nextOK = true
					}
				}
			}
		case *ssa.Return:
			v := retValue(x, 0)
			if dependsOn(v, cp, 0) {
				nOK = true
			}
		}
	})
	if !sliceOK {
		why += " the source slice is not advanced by the number of bytes copied (b = b[_n:]) in the same block;"
	}
	if !nextOK {
		why += " compressor.next is not advanced by the number of bytes copied;"
	}
	if !nOK {
		why += " the returned count does not accumulate the number of bytes copied;"
	}
	// the count added to n is exactly _n: an ADD(phi, cp)
	addN := false
	allInstrs(fn, func(ins ssa.Instruction) {
		if bo, ok := ins.(*ssa.BinOp); ok && bo.Op == token.ADD && bo.Y == ssa.Value(cp) {
			if _, isPhi := bo.X.(*ssa.Phi); isPhi && bo.Block() == cp.Block() {
				addN = true
			}
		}
	})
	if !addN {
		why += " n += _n missing in the copy's block;"
	}
	r.Check(why == "", rule, "bgzf.(*Writer).Write#cursors", c.Pos(cp.Pos()), "_n = copy(block[next:], b); b = b[_n:]; next += _n; n += _n", why)
}

// ruleCurCount: countReader keeps off in step with what it consumed.
func ruleCurCount(c *Ctx, r *Rep, tier string) {
	rule := "CUR-COUNT"
	fOff := c.Field("bgzf", "countReader", "off")
	for _, name := range []string{"Read", "ReadByte"} {
		fn := c.Func("bgzf", "(*countReader)."+name)
		r.Instance(rule, 1)
		var inner *ssa.Call
		allInstrs(fn, func(ins ssa.Instruction) {
			if call, ok := ins.(*ssa.Call); ok && call.Call.IsInvoke() && call.Call.Method.Name() == name {
				inner = call
			}
		})
		key := "bgzf.(*countReader)." + name + "#off"
		if inner == nil {
			r.Fail(rule, key, c.Pos(fn.Pos()), "no forwarding call found: undecided")
			continue
		}
		var stores []*ssa.Store
		allInstrs(fn, func(ins ssa.Instruction) {
			if st, ok := ins.(*ssa.Store); ok {
				if fa, isFa := st.Addr.(*ssa.FieldAddr); isFa && fieldVarOfAddr(fa) == fOff {
					stores = append(stores, st)
				}
			}
		})
		why := ""
		if len(stores) != 1 {
			why = fmt.Sprintf(" %d stores to off, expected one;", len(stores))
		} else {
			st := stores[0]
			bo, ok := st.Val.(*ssa.BinOp)
			f, _ := func() (interface{}, bool) { return nil, false }()
			_ = f
			if !ok || bo.Op != token.ADD {
				why += " off is not incremented;"
			} else {
				lf, _ := loadedField(bo.X)
				if lf != fOff {
					why += " off is not incremented from its own value;"
				}
				if name == "Read" {
					if !dependsOn(bo.Y, inner, 0) {
						why += " off is not advanced by the number of bytes the underlying Read returned;"
					}
					if _, ok := mustPass(locOf(inner), isReturn, func(x ssa.Instruction) bool { return x == st }, nil); !ok {
						why += " a path returns without advancing off (bytes returned together with an error count too);"
					}
				} else {
					if k, isK := constInt(bo.Y); !isK || k != 1 {
						why += " ReadByte does not advance off by one;"
					}
					// only on the err == nil edge, and on every path from it
					guarded := false
					for _, b := range fn.Blocks {
						i := ifOf(b)
						if i == nil {
							continue
						}
						cb, isB := i.Cond.(*ssa.BinOp)
						if !isB || !isNilConst(cb.Y) || !dependsOn(cb.X, inner, 0) {
							continue
						}
						k := 0
						if cb.Op == token.NEQ {
							k = 1
						}
						if dominatedByEdge(fn, b, k, st.Block()) {
							if _, ok := mustPass(Loc{b.Succs[k], -1}, isReturn, func(x ssa.Instruction) bool { return x == st }, nil); ok {
								guarded = true
							}
						}
					}
					if !guarded {
						why += " the increment is not exactly on the err == nil edge;"
					}
				}
			}
		}
		r.Check(why == "", rule, key, c.Pos(fn.Pos()), "off advances by exactly what was consumed", why)
	}
	// seek sets off to the target on success
	fn := c.Func("bgzf", "(*countReader).seek")
	r.Instance(rule, 1)
	okSeek := false
	allInstrs(fn, func(ins ssa.Instruction) {
		if st, ok := ins.(*ssa.Store); ok {
			if fa, isFa := st.Addr.(*ssa.FieldAddr); isFa && fieldVarOfAddr(fa) == fOff && st.Val == ssa.Value(fn.Params[2]) {
				okSeek = true
			}
		}
	})
	r.Check(okSeek, rule, "bgzf.(*countReader).seek#off", c.Pos(fn.Pos()), "off = target offset after a successful Seek", "seek does not set off to the offset it seeked to")
}

// ruleBamNew: bam.NewWriterLevel writes the header, then Flush, then Wait, and
// returns Wait's error; a writer is returned only after all three.
func ruleBamNew(c *Ctx, r *Rep, tier string) {
	rule := "PATH-BAMNEW"
	fn := c.Func("bam", "NewWriterLevel")
	wh := c.Func("bam", "(*Writer).writeHeader")
	flush := c.Func("bgzf", "(*Writer).Flush")
	wait := c.Func("bgzf", "(*Writer).Wait")
	r.Instance(rule, 1)
	is := func(g *ssa.Function) func(ssa.Instruction) bool {
		return func(ins ssa.Instruction) bool {
			call, ok := ins.(*ssa.Call)
			return ok && staticCallee(&call.Call) == g
		}
	}
	success := func(ins ssa.Instruction) bool {
		ret, ok := ins.(*ssa.Return)
		return ok && len(ret.Results) == 2 && !isNilConst(retValue(ret, 0))
	}
	why := ""
	if bad, ok := mustPass(entryLoc(fn), success, is(wh), nil); !ok {
		why += fmt.Sprintf(" a writer is returned at %s without the header having been written;", c.Pos(bad.Pos()))
	}
	var whCall, flCall, wtCall ssa.Instruction
	allInstrs(fn, func(ins ssa.Instruction) {
		switch {
		case is(wh)(ins):
			whCall = ins
		case is(flush)(ins):
			flCall = ins
		case is(wait)(ins):
			wtCall = ins
		}
	})
	if whCall == nil || flCall == nil || wtCall == nil {
		why += " writeHeader / Flush / Wait calls not all present;"
	} else {
		if _, ok := mustPass(locOf(whCall), success, is(flush), nil); !ok {
			why += " success is reachable after writeHeader without Flush;"
		}
		if _, ok := mustPass(locOf(flCall), success, is(wait), nil); !ok {
			why += " success is reachable after Flush without Wait: the header may not have reached the underlying writer when NewWriter returns;"
		}
		if !instrDominates(whCall, flCall) || !instrDominates(flCall, wtCall) {
			why += " order writeHeader → Flush → Wait not on every path;"
		}
		// success only on the nil edge of Wait's error
		guard := false
		for _, b := range fn.Blocks {
			i := ifOf(b)
			if i == nil {
				continue
			}
			bo, isB := i.Cond.(*ssa.BinOp)
			if !isB || !isNilConst(bo.Y) || strip(bo.X) != wtCall.(ssa.Value) {
				continue
			}
			k := 0
			if bo.Op == token.NEQ {
				k = 1
			}
			ok := true
			allInstrs(fn, func(ins ssa.Instruction) {
				if success(ins) && !dominatedByEdge(fn, b, k, ins.Block()) {
					ok = false
				}
			})
			guard = ok
		}
		if !guard {
			why += " Wait's error is not tested before returning the writer;"
		}
	}
	r.Check(why == "", rule, "bam.NewWriterLevel#header-durable", c.Pos(fn.Pos()), "writeHeader; Flush; Wait; writer returned only if Wait's error is nil", why)
}
