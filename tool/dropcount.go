// DROP-COUNT: the eviction loops of the caches' drop(n) remove at most n
// blocks: every removal is executed only while the remaining count is ≥ 1, and
// every way from a removal to the next one decrements the count.
//
// The count is an SSA integer: the parameter, loop phis of it, and "count − 1"
// values. "≥ 1" is established either by a guard edge on that very value that
// dominates the removal (for n > 0 && …), or by an inductive invariant of the
// loop phi: every incoming edge carries a value ≥ 1 – the parameter under the
// "n < 1 → return" guard, another counter phi with the invariant, or a
// decremented counter on the "≠ 0" edge of its test (a decremented counter is
// ≥ 0 when the counter was ≥ 1). Added after seed C14-b (a `return` turned into
// `break` lets the second loop of Random.drop start with a count of 0, after
// which the count never reaches 0 again and the whole cache is emptied) had
// been declared out of reach.
package main

import (
	"fmt"
	"go/token"
	"go/types"

	"golang.org/x/tools/go/ssa"
)

type dropAnalysis struct {
	fn       *ssa.Function
	n        *ssa.Parameter
	counters map[ssa.Value]bool // parameter and phis
	decs     map[ssa.Value]ssa.Value
	inv      map[*ssa.Phi]int // 0 unknown, 1 holds, -1 fails, 2 in progress
}

func newDropAnalysis(fn *ssa.Function, n *ssa.Parameter) *dropAnalysis {
	da := &dropAnalysis{fn: fn, n: n, counters: map[ssa.Value]bool{n: true}, decs: map[ssa.Value]ssa.Value{}, inv: map[*ssa.Phi]int{}}
	for changed := true; changed; {
		changed = false
		allInstrs(fn, func(ins ssa.Instruction) {
			switch x := ins.(type) {
			case *ssa.BinOp:
				if x.Op == token.SUB && da.counters[x.X] {
					if k, ok := constInt(x.Y); ok && k == 1 && da.decs[x] == nil {
						da.decs[x] = x.X
						changed = true
					}
				}
			case *ssa.Phi:
				if da.counters[x] {
					return
				}
				all := len(x.Edges) > 0
				for _, e := range x.Edges {
					if da.counters[e] || da.decs[e] != nil || e == ssa.Value(x) {
						continue
					}
					// the phi's own decrement (p = φ(n, p−1)): not yet known as a decrement
					if bo, ok := e.(*ssa.BinOp); ok && bo.Op == token.SUB && (bo.X == ssa.Value(x) || da.counters[bo.X]) {
						if k, isK := constInt(bo.Y); isK && k == 1 {
							continue
						}
					}
					all = false
				}
				if all {
					da.counters[x] = true
					changed = true
				}
			}
		})
	}
	return da
}

// guardEdges: (block, successor index) pairs on which v ≥ 1 holds; tests of the
// form v != 0 count only when v is known to be ≥ 0.
func (da *dropAnalysis) guardEdges(v ssa.Value, nonNeg bool) [][2]interface{} {
	var out [][2]interface{}
	for _, b := range da.fn.Blocks {
		iff := ifOf(b)
		if iff == nil {
			continue
		}
		bo, ok := iff.Cond.(*ssa.BinOp)
		if !ok || bo.X != v {
			continue
		}
		k, isK := constInt(bo.Y)
		if !isK {
			continue
		}
		yes := -1
		switch {
		case bo.Op == token.GTR && k == 0, bo.Op == token.GEQ && k == 1:
			yes = 0
		case bo.Op == token.LSS && k == 1, bo.Op == token.LEQ && k == 0:
			yes = 1
		case bo.Op == token.NEQ && k == 0 && nonNeg:
			yes = 0
		case bo.Op == token.EQL && k == 0 && nonNeg:
			yes = 1
		}
		if yes >= 0 {
			out = append(out, [2]interface{}{b, yes})
		}
	}
	return out
}

// geOneAt: v ≥ 1 whenever control is in block at.
func (da *dropAnalysis) geOneAt(v ssa.Value, at *ssa.BasicBlock, nonNeg bool) bool {
	for _, g := range da.guardEdges(v, nonNeg) {
		if dominatedByEdge(da.fn, g[0].(*ssa.BasicBlock), g[1].(int), at) {
			return true
		}
	}
	return false
}

// geOneOnEdge: v ≥ 1 when control passes from pred to succ.
func (da *dropAnalysis) geOneOnEdge(v ssa.Value, pred, succ *ssa.BasicBlock, nonNeg bool) bool {
	if da.geOneAt(v, pred, nonNeg) {
		return true
	}
	for _, g := range da.guardEdges(v, nonNeg) {
		b, k := g[0].(*ssa.BasicBlock), g[1].(int)
		if b == pred && pred.Succs[k] == succ && pred.Succs[1-k] != succ {
			return true
		}
	}
	return false
}

func (da *dropAnalysis) invariant(p *ssa.Phi) bool {
	switch da.inv[p] {
	case 1, 2:
		return true // 2: coinductive hypothesis
	case -1:
		return false
	}
	da.inv[p] = 2
	ok := true
	for i, e := range p.Edges {
		pred := p.Block().Preds[i]
		switch {
		case e == ssa.Value(p):
		case e == ssa.Value(da.n):
			ok = ok && da.geOneOnEdge(e, pred, p.Block(), false)
		case da.counters[e]:
			q, isPhi := e.(*ssa.Phi)
			ok = ok && isPhi && (da.invariant(q) || da.geOneOnEdge(e, pred, p.Block(), false))
		case da.decs[e] != nil:
			// the counter it was decremented from must be ≥ 1, then e ≥ 0 and a ≠ 0 edge gives ≥ 1
			ok = ok && da.geOne(da.decs[e], e.(ssa.Instruction).Block()) && da.geOneOnEdge(e, pred, p.Block(), true)
		default:
			ok = false
		}
	}
	if ok {
		da.inv[p] = 1
	} else {
		da.inv[p] = -1
	}
	return ok
}

// geOne: the counter value v is ≥ 1 in block at.
func (da *dropAnalysis) geOne(v ssa.Value, at *ssa.BasicBlock) bool {
	if da.geOneAt(v, at, false) {
		return true
	}
	if p, ok := v.(*ssa.Phi); ok && da.counters[v] {
		return da.invariant(p)
	}
	if src := da.decs[v]; src != nil {
		return da.geOne(src, v.(ssa.Instruction).Block()) && da.geOneAt(v, at, true)
	}
	return false
}

// current: the counter value in force at ins: the counter definition (parameter,
// phi, decrement) that dominates ins and is dominated by all other such
// definitions.
func (da *dropAnalysis) current(ins ssa.Instruction) ssa.Value {
	var best ssa.Value = da.n
	var bestIns ssa.Instruction
	consider := func(v ssa.Value) {
		di, ok := v.(ssa.Instruction)
		if !ok || !instrDominates(di, ins) {
			return
		}
		if bestIns == nil || instrDominates(bestIns, di) {
			best, bestIns = v, di
		}
	}
	for v := range da.counters {
		consider(v)
	}
	for v := range da.decs {
		consider(v)
	}
	return best
}

func ruleDropCount(c *Ctx, r *Rep, tier string) {
	rule := "DROP-COUNT"
	removeFn := c.FuncOpt("bgzf/cache", "remove")
	n := 0
	for _, fn := range c.FuncsIn("bgzf/cache") {
		if fn.Name() != "drop" || fn.Signature.Recv() == nil || len(fn.Params) != 2 {
			continue
		}
		if b, ok := fn.Params[1].Type().Underlying().(*types.Basic); !ok || b.Kind() != types.Int {
			continue
		}
		da := newDropAnalysis(fn, fn.Params[1])
		k := 0
		allInstrs(fn, func(ins ssa.Instruction) {
			call, ok := ins.(*ssa.Call)
			if !ok {
				return
			}
			_, isDel := isBuiltinCall(call, "delete")
			if !isDel && (removeFn == nil || staticCallee(&call.Call) != removeFn) {
				return
			}
			n++
			k++
			r.Instance(rule, 1)
			key := fmt.Sprintf("%s#removal~%d", c.FnName(fn), k)
			cur := da.current(call)
			why := ""
			if !da.geOne(cur, call.Block()) {
				why = fmt.Sprintf("the removal at %s is reachable with the remaining count %s possibly ≤ 0: from there the count never returns to 0 and the loop empties the cache (more than n evictions)", c.Pos(call.Pos()), symKey(cur))
			}
			// every way from this removal to a loop head carries a decremented count
			counted := false
			if why == "" {
				for v := range da.counters {
					p, isPhi := v.(*ssa.Phi)
					// only the heads of loops that contain the removal
					if !isPhi || !p.Block().Dominates(call.Block()) {
						continue
					}
					for i, e := range p.Edges {
						pred := p.Block().Preds[i]
						if len(pred.Instrs) == 0 {
							continue
						}
						last := pred.Instrs[len(pred.Instrs)-1]
						inPhiBlock := func(x ssa.Instruction) bool { return x.Block() == p.Block() }
						_, reach := pathTo(locOf(call), is(last), inPhiBlock, nil)
						if pred == call.Block() {
							reach = true
						}
						if !reach {
							continue
						}
						if da.decs[e] == nil {
							why = fmt.Sprintf("after the removal at %s the loop continues (edge from block %d) with the count %s, not decremented: the removal is not counted", c.Pos(call.Pos()), pred.Index, symKey(e))
						} else {
							counted = true
						}
					}
				}
				if why == "" && !counted && inLoop(call) {
					why = fmt.Sprintf("the removal at %s is repeated in a loop that never changes the count: the number of evictions is not bounded by n", c.Pos(call.Pos()))
				}
			}
			r.Check(why == "", rule, key, c.Pos(call.Pos()), "executed only while the remaining count ≥ 1 ("+symKey(cur)+"), and counted", why)
		})
	}
	if n < 4 {
		r.Instance(rule, 1)
		r.Fail(rule, "bgzf/cache#drop-removals", "bgzf/cache/cache.go", fmt.Sprintf("%d removals found in the drop functions, want 4", n))
	}
	ruleTableWhole(c, r, rule)
}
