// MAP-INIT (C11): a map field that methods write through an existing object is
// made before the object leaves the function that created it.
//
// Writing to a nil map panics. For every struct field of map type that some
// function of the module updates through a parameter or receiver
// (`x.f[k] = v`), every function that allocates the struct and returns it must,
// on every path from the allocation to such a return, store a non-nil map into
// the field – itself, or through a callee that is handed the object and does so
// on all its non-failing paths (summaries, to a fixed point). Written after a
// fourth-round seed moved the construction of tabix.Index.nameMap into a helper
// that returns early for an index without names: ReadFrom(WriteTo(New())) gave
// an Index whose Add panics.
package main

import (
	"fmt"
	"go/token"
	"go/types"
	"sort"

	"golang.org/x/tools/go/ssa"
)

type mapInit struct {
	c       *Ctx
	errT    types.Type
	summary map[string]int // fn|param|field → 0 unknown(in progress: assume yes), 1 yes, 2 no
}

// rootParam: the parameter (index) an address or pointer value is derived from.
func rootParam(v ssa.Value) (*ssa.Parameter, bool) {
	for d := 0; d < 12; d++ {
		v = origin(v)
		switch x := v.(type) {
		case *ssa.Parameter:
			return x, true
		case *ssa.FieldAddr:
			v = x.X
		case *ssa.UnOp:
			if x.Op != token.MUL {
				return nil, false
			}
			v = x.X
		default:
			return nil, false
		}
	}
	return nil, false
}

// isFailureReturn: the return hands back an error that is known to be non-nil.
func (m *mapInit) isFailureReturn(ret *ssa.Return) bool {
	fn := ret.Parent()
	for i := range ret.Results {
		if !types.Identical(fn.Signature.Results().At(i).Type(), m.errT) {
			continue
		}
		v := retValue(ret, i)
		if isNilConst(v) {
			return false
		}
		switch x := v.(type) {
		case *ssa.MakeInterface:
			return true
		case *ssa.Call:
			switch calleeFullName(&x.Call) {
			case "errors.New", "fmt.Errorf":
				return true
			}
		case *ssa.UnOp:
			if _, isG := x.X.(*ssa.Global); isG {
				return true // a package-level error value
			}
		}
		// dominated by the edge `v != nil`
		for _, b := range fn.Blocks {
			ce, ok := classifyErrIf(b, func(u ssa.Value) bool { return u == v || sameExpr(u, v, 0) })
			if ok && ce.isNil && b.Succs[0] != b.Succs[1] && dominatedByEdge(fn, b, 1-ce.yes, ret.Block()) {
				return true
			}
		}
		return false
	}
	return false
}

// initBarrier: ins stores a non-nil map into field f of the object `obj`
// denotes, or hands the object to a callee that always does.
func (m *mapInit) initBarrier(ins ssa.Instruction, isObj func(ssa.Value) bool, f *types.Var) bool {
	switch x := ins.(type) {
	case *ssa.Store:
		if fa, ok := x.Addr.(*ssa.FieldAddr); ok && fieldVarOfAddr(fa) == f && isObj(fa.X) {
			return !isNilConst(x.Val)
		}
		// a whole-struct store of a composite that has the field set is not modelled
	case *ssa.Call:
		g := staticCallee(&x.Call)
		if g == nil || len(g.Blocks) == 0 {
			return false
		}
		for j, a := range x.Call.Args {
			if j < len(g.Params) && isObj(a) && m.mustInit(g, j, f) {
				return true
			}
		}
	}
	return false
}

// nonNilEdge: the edge from→to establishes that field f of the object is not nil
// (the lazy form `if x.f == nil { x.f = make(…) }` leaves by that edge with the
// obligation met).
func nonNilEdge(from, to *ssa.BasicBlock, isObj func(ssa.Value) bool, f *types.Var) bool {
	ce, ok := classifyErrIf(from, func(u ssa.Value) bool {
		fv, base := loadedField(u)
		return fv == f && isObj(base)
	})
	if !ok || !ce.isNil || from.Succs[0] == from.Succs[1] {
		return false
	}
	return to == from.Succs[1-ce.yes]
}

func (m *mapInit) mustInit(g *ssa.Function, k int, f *types.Var) bool {
	key := fmt.Sprintf("%p|%d|%p", g, k, f)
	switch m.summary[key] {
	case 1:
		return true
	case 2:
		return false
	case 3:
		return false // recursion: no
	}
	m.summary[key] = 3
	par := g.Params[k]
	isObj := func(v ssa.Value) bool {
		p, ok := rootParam(v)
		return ok && p == par
	}
	barrier := func(ins ssa.Instruction) bool { return m.initBarrier(ins, isObj, f) }
	target := func(ins ssa.Instruction) bool {
		ret, ok := ins.(*ssa.Return)
		return ok && !m.isFailureReturn(ret) && !(g.Recover != nil && ret.Block() == g.Recover)
	}
	_, reach := pathTo(entryLoc(g), target, barrier, func(from, to *ssa.BasicBlock) bool { return !nonNilEdge(from, to, isObj, f) })
	if reach {
		m.summary[key] = 2
	} else {
		m.summary[key] = 1
	}
	return !reach
}

func ruleMapInit(c *Ctx, r *Rep, tier string) {
	rule := "MAP-INIT"
	m := &mapInit{c: c, errT: types.Universe.Lookup("error").Type(), summary: map[string]int{}}
	// 1. map fields written through an existing object
	written := map[*types.Var]string{}
	for _, fn := range c.SrcFuncs() {
		for _, f := range withAnon(fn) {
			allInstrs(f, func(ins ssa.Instruction) {
				mu, ok := ins.(*ssa.MapUpdate)
				if !ok {
					return
				}
				fv, base := loadedField(mu.Map)
				if fv == nil {
					return
				}
				if par, isPar := rootParam(base); isPar {
					// a write that only happens once the map was found non-nil is no demand
					isObj := func(v ssa.Value) bool { p, ok := rootParam(v); return ok && p == par }
					guarded := false
					for _, b := range f.Blocks {
						for k, s := range b.Succs {
							if nonNilEdge(b, s, isObj, fv) && dominatedByEdge(f, b, k, mu.Block()) {
								guarded = true
							}
						}
					}
					if guarded {
						return
					}
					if _, seen := written[fv]; !seen {
						written[fv] = c.FnName(f)
					}
				}
			})
		}
	}
	if len(written) == 0 {
		r.Instance(rule, 1)
		r.Fail(rule, "module#map-fields", "-", "no map field written through an existing object found: the rule's anchor is gone (undecided)")
		return
	}
	var fields []*types.Var
	for fv := range written {
		fields = append(fields, fv)
	}
	sort.Slice(fields, func(i, j int) bool { return fields[i].Pos() < fields[j].Pos() })
	ownerOf := func(fv *types.Var) *types.Struct {
		for _, p := range c.Pkgs {
			sc := p.Types.Scope()
			for _, n := range sc.Names() {
				tn, ok := sc.Lookup(n).(*types.TypeName)
				if !ok {
					continue
				}
				if st, ok := tn.Type().Underlying().(*types.Struct); ok {
					for i := 0; i < st.NumFields(); i++ {
						if st.Field(i) == fv {
							return st
						}
					}
				}
			}
		}
		return nil
	}
	// 2. every allocation of the owner that is returned
	for _, fv := range fields {
		st := ownerOf(fv)
		if st == nil {
			continue
		}
		for _, fn := range c.SrcFuncs() {
			var allocs []*ssa.Alloc
			allInstrs(fn, func(ins ssa.Instruction) {
				if al, ok := ins.(*ssa.Alloc); ok {
					if pt, ok := al.Type().(*types.Pointer); ok && pt.Elem().Underlying() == types.Type(st) {
						allocs = append(allocs, al)
					}
				}
			})
			for ai, al := range allocs {
				isObj := func(v ssa.Value) bool {
					for d := 0; d < 12; d++ {
						v = origin(v)
						switch x := v.(type) {
						case *ssa.Alloc:
							return x == al
						case *ssa.FieldAddr:
							v = x.X
						default:
							return false
						}
					}
					return false
				}
				returnsObj := func(ins ssa.Instruction) bool {
					ret, ok := ins.(*ssa.Return)
					if !ok || (fn.Recover != nil && ret.Block() == fn.Recover) {
						return false
					}
					for i := range ret.Results {
						v := retValue(ret, i)
						if isObj(v) {
							return true
						}
						// returned by value: a load of the whole object
						if u, ok := origin(v).(*ssa.UnOp); ok && u.Op == token.MUL && isObj(u.X) {
							return true
						}
						if mi, ok := v.(*ssa.MakeInterface); ok && isObj(mi.X) {
							return true
						}
					}
					return false
				}
				// is it returned at all?
				if _, any := pathTo(locOf(al), returnsObj, nil, nil); !any {
					continue
				}
				r.Instance(rule, 1)
				key := fmt.Sprintf("%s#%s", c.FnName(fn), fv.Name())
				if ai > 0 {
					key += fmt.Sprintf("~%d", ai+1)
				}
				barrier := func(ins ssa.Instruction) bool { return m.initBarrier(ins, isObj, fv) }
				ret, reach := pathTo(locOf(al), returnsObj, barrier, func(from, to *ssa.BasicBlock) bool { return !nonNilEdge(from, to, isObj, fv) })
				why := ""
				if reach {
					why = fmt.Sprintf("the object returned at %s can leave with a nil %s: %s later writes to that map (assignment to entry in nil map)", c.Pos(ret.Pos()), fv.Name(), written[fv])
				}
				r.Check(!reach, rule, key, c.Pos(al.Pos()), fv.Name()+" is made on every path from the allocation to a return of the object", why)
			}
		}
	}
}
