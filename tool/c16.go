// C16 / C04 registration plus CIGAR consumption table and role rules.
package main

import (
	"fmt"
	"go/ast"
	"go/constant"
	"go/token"

	"golang.org/x/tools/go/ssa"
)

// SAM specification §1.4.6: does the op consume query / reference?
var consumeSpec = map[int64][2]int64{0: {1, 1}, 1: {1, 0}, 2: {0, 1}, 3: {0, 1}, 4: {1, 0}, 5: {0, 0}, 6: {0, 0}, 7: {1, 1}, 8: {1, 1}}

const cigarLettersSpec = "MIDNSHP=X"

func ruleTabConsume(c *Ctx, r *Rep, tier string) {
	rule := "TAB-CONSUME"
	samP := c.ByPath["sam"]
	got := map[int64][2]int64{}
	var letters []string
	found := false
	for _, f := range samP.Syntax {
		ast.Inspect(f, func(n ast.Node) bool {
			vs, ok := n.(*ast.ValueSpec)
			if !ok || len(vs.Names) != 1 || len(vs.Values) != 1 {
				return true
			}
			cl, ok := vs.Values[0].(*ast.CompositeLit)
			if !ok {
				return true
			}
			switch vs.Names[0].Name {
			case "consume":
				found = true
				idx := int64(0)
				for _, el := range cl.Elts {
					var ve ast.Expr = el
					if kv, ok := el.(*ast.KeyValueExpr); ok {
						if tv := samP.TypesInfo.Types[kv.Key]; tv.Value != nil {
							idx, _ = constant.Int64Val(tv.Value)
						}
						ve = kv.Value
					}
					var q, rf int64
					if inner, ok := ve.(*ast.CompositeLit); ok {
						for i, fe := range inner.Elts {
							if kv, ok := fe.(*ast.KeyValueExpr); ok {
								tv := samP.TypesInfo.Types[kv.Value]
								if tv.Value == nil {
									continue
								}
								v, _ := constant.Int64Val(tv.Value)
								switch kv.Key.(*ast.Ident).Name {
								case "Query":
									q = v
								case "Reference":
									rf = v
								}
							} else if tv := samP.TypesInfo.Types[fe]; tv.Value != nil {
								v, _ := constant.Int64Val(tv.Value)
								if i == 0 {
									q = v
								} else {
									rf = v
								}
							}
						}
					}
					got[idx] = [2]int64{q, rf}
					idx++
				}
			case "cigarOps":
				for _, el := range cl.Elts {
					if tv := samP.TypesInfo.Types[el]; tv.Value != nil {
						letters = append(letters, constant.StringVal(tv.Value))
					}
				}
			}
			return true
		})
	}
	r.Instance(rule, len(consumeSpec))
	why := ""
	if !found {
		why = " consume table not found;"
	}
	for k, want := range consumeSpec {
		if got[k] != want {
			why += fmt.Sprintf(" op %d (%c) consumes (query %d, reference %d), SAM specification: (%d, %d);", k, cigarLettersSpec[k], got[k][0], got[k][1], want[0], want[1])
		}
	}
	if b, ok := got[9]; !ok || b != [2]int64{0, -1} {
		why += " the B extension is not (query 0, reference −1);"
	}
	r.Check(why == "", rule, "sam.consume#table", "sam/cigar.go", "M,=,X:(1,1) I,S:(1,0) D,N:(0,1) H,P:(0,0) B:(0,-1)", "the CIGAR consumption table deviates from the SAM specification:"+why)
	r.Instance(rule, 1)
	why = ""
	for i := 0; i < len(cigarLettersSpec); i++ {
		if i >= len(letters) || letters[i] != string(cigarLettersSpec[i]) {
			why += fmt.Sprintf(" cigarOps[%d] is not %q;", i, cigarLettersSpec[i])
		}
	}
	// the parse lookup is initialised from the same letters in the same order
	init := c.SSA["sam"].Func("init#1")
	okInit := false
	for _, fn := range c.FuncsIn("sam") {
		if fn.Name() != "init#1" && fn.Name() != "init" {
			continue
		}
		allInstrs(fn, func(ins ssa.Instruction) {
			if s, ok := constStringOf(valueOf(ins)); ok && s == cigarLettersSpec+"B" {
				okInit = true
			}
		})
	}
	_ = init
	if !okInit {
		// the literal []byte{'M','I',…} is stored element-wise: collect constant byte stores in init functions
		for _, fn := range c.FuncsIn("sam") {
			if len(fn.Name()) < 4 || fn.Name()[:4] != "init" {
				continue
			}
			seq := map[int64]int64{}
			allInstrs(fn, func(ins ssa.Instruction) {
				if st, ok := ins.(*ssa.Store); ok {
					if ia, isIa := st.Addr.(*ssa.IndexAddr); isIa {
						i, ok1 := constInt(ia.Index)
						v, ok2 := constInt(st.Val)
						if ok1 && ok2 {
							seq[i] = v
						}
					}
				}
			})
			s := ""
			for i := int64(0); i < int64(len(seq)); i++ {
				s += string(rune(seq[i]))
			}
			if s == cigarLettersSpec+"B" {
				okInit = true
			}
		}
	}
	if !okInit {
		why += " the parse lookup table is not initialised from \"MIDNSHP=XB\" in op order;"
	}
	r.Check(why == "", rule, "sam.cigarOps#letters", "sam/cigar.go", "format letters and parse lookup are \"MIDNSHP=XB\" in op order", why)
}

func valueOf(ins ssa.Instruction) ssa.Value {
	v, _ := ins.(ssa.Value)
	return v
}

// ruleDepRoles (DEP-ROLES): which Consume field drives which result.
func ruleDepRoles(c *Ctx, r *Rep, tier string) {
	rule := "DEP-ROLES"
	fQ := c.Field("sam", "Consume", "Query")
	fR := c.Field("sam", "Consume", "Reference")
	selects := func(fn *ssa.Function) (q, rf []ssa.Value) {
		allInstrs(fn, func(ins ssa.Instruction) {
			switch x := ins.(type) {
			case *ssa.Field:
				switch fieldVarOfField(x) {
				case fQ:
					q = append(q, x)
				case fR:
					rf = append(rf, x)
				}
			case *ssa.UnOp:
				if x.Op == token.MUL {
					if fa, ok := x.X.(*ssa.FieldAddr); ok {
						switch fieldVarOfAddr(fa) {
						case fQ:
							q = append(q, x)
						case fR:
							rf = append(rf, x)
						}
					}
				}
			}
		})
		return
	}
	depAny := func(v ssa.Value, set []ssa.Value) bool {
		for _, s := range set {
			if dependsOnDeep(v, s, 0, map[ssa.Value]bool{}) {
				return true
			}
		}
		return false
	}
	// Cigar.Lengths: result 0 = reference, result 1 = read
	{
		fn := c.Func("sam", "Cigar.Lengths")
		q, rf := selects(fn)
		r.Instance(rule, 2)
		why := ""
		allInstrs(fn, func(ins ssa.Instruction) {
			ret, ok := ins.(*ssa.Return)
			if !ok {
				return
			}
			if !depAny(retValue(ret, 0), rf) || depAny(retValue(ret, 0), q) {
				why += " the reference length is not driven by Consume.Reference only;"
			}
			if !depAny(retValue(ret, 1), q) || depAny(retValue(ret, 1), rf) {
				why += " the read length is not driven by Consume.Query only;"
			}
		})
		r.Check(why == "", rule, "sam.Cigar.Lengths#roles", c.Pos(fn.Pos()), "ref ← Reference, read ← Query", why)
	}
	// Record.End: driven by Reference
	{
		fn := c.Func("sam", "(*Record).End")
		q, rf := selects(fn)
		r.Instance(rule, 1)
		why := ""
		n := 0
		allInstrs(fn, func(ins ssa.Instruction) {
			ret, ok := ins.(*ssa.Return)
			if !ok {
				return
			}
			if depAny(retValue(ret, 0), q) {
				why += " End depends on Consume.Query;"
			}
			if depAny(retValue(ret, 0), rf) {
				n++
			}
		})
		if n == 0 {
			why += " End does not depend on Consume.Reference;"
		}
		r.Check(why == "", rule, "sam.(*Record).End#roles", c.Pos(fn.Pos()), "End ← Reference", why)
	}
	// Cigar.IsValid: the length that must reach zero is driven by Query
	{
		fn := c.Func("sam", "Cigar.IsValid")
		q, rf := selects(fn)
		r.Instance(rule, 1)
		why := ""
		ok := false
		allInstrs(fn, func(ins ssa.Instruction) {
			bo, isB := ins.(*ssa.BinOp)
			if !isB || bo.Op != token.EQL {
				return
			}
			if k, isK := constInt(bo.Y); !isK || k != 0 {
				return
			}
			// the final `length == 0`
			for _, ref := range *bo.Referrers() {
				if _, isRet := ref.(*ssa.Return); isRet {
					if depAny(bo.X, q) && !depAny(bo.X, rf) {
						ok = true
					} else {
						why += " the sequence-length balance is not driven by Consume.Query only;"
					}
				}
			}
		})
		if !ok && why == "" {
			why = " final length test not found;"
		}
		r.Check(why == "", rule, "sam.Cigar.IsValid#roles", c.Pos(fn.Pos()), "length balance ← Query", why)
	}
}

// dependsOnDeep: like dependsOn but also through loads of local variables that
// were stored from dependent values.
func dependsOnDeep(v, target ssa.Value, depth int, seen map[ssa.Value]bool) bool {
	if v == target {
		return true
	}
	if depth > 14 || v == nil || seen[v] {
		return false
	}
	seen[v] = true
	switch x := v.(type) {
	case *ssa.BinOp:
		return dependsOnDeep(x.X, target, depth+1, seen) || dependsOnDeep(x.Y, target, depth+1, seen)
	case *ssa.Convert:
		return dependsOnDeep(x.X, target, depth+1, seen)
	case *ssa.ChangeType:
		return dependsOnDeep(x.X, target, depth+1, seen)
	case *ssa.Phi:
		for _, e := range x.Edges {
			if dependsOnDeep(e, target, depth+1, seen) {
				return true
			}
		}
	case *ssa.Extract:
		return dependsOnDeep(x.Tuple, target, depth+1, seen)
	case *ssa.Call:
		for _, a := range x.Call.Args {
			if dependsOnDeep(a, target, depth+1, seen) {
				return true
			}
		}
	case *ssa.UnOp:
		if x.Op == token.MUL {
			if al, ok := x.X.(*ssa.Alloc); ok {
				for _, ref := range *al.Referrers() {
					if st, ok := ref.(*ssa.Store); ok && st.Addr == ssa.Value(al) && dependsOnDeep(st.Val, target, depth+1, seen) {
						return true
					}
				}
			}
			return false
		}
		return dependsOnDeep(x.X, target, depth+1, seen)
	}
	return false
}

func init() {
	binBAI := RuleDef{Name: "BIN-PAIRS", What: "BAI/tabix: BinFor and OverlappingBinsFor use, level by level, the (first bin, shift) pairs of the UCSC scheme ((8^l−1)/7, 29−3l), end−1, inclusive enumeration; TileWidth, 37450", Floor: 4, Run: ruleBinPairsBAI}
	binCSI := RuleDef{Name: "BIN-PAIRS-CSI", What: "CSI: the level recurrences of reg2bin and reg2bins, interpreted for seven (minShift, depth) geometries (they do not depend on beg/end – checked), yield the scheme's pairs and agree with each other", Floor: 14, Run: ruleBinPairsCSI}
	binUnplaced := RuleDef{Name: "BIN-UNPLACED", What: "sam.Record.Bin is a function of the position alone: BinFor(Pos, max(End(), Pos+1)) for every combination of the unmapped flags, and 4680 = reg2bin(-1, 0) for a read without position (added after fifth-round seeds C04-e and C16-e; restated after repo fix 9f5a73b – it used to demand the constant for unmapped pairs, which is what the code did, not what the specification says)", Floor: 3, Run: ruleBinUnplaced}
	binOneWalk := RuleDef{Name: "BIN-ONE-WALK", What: "internal.OverlappingBinsFor: every returned list went through the walk over the level table (no bypassing fast path; added after fifth-round seed C16-f)", Floor: 1, Run: ruleBinOneWalk}
	register(&PropDef{
		ID: "C16", Title: "Coordinate arithmetic (End, Len, Bin, CIGAR lengths, bin lists) matches the spec", Level: "other",
		Rules: []RuleDef{binBAI, binCSI, binUnplaced, binOneWalk,
			{Name: "TAB-CONSUME", What: "CIGAR consumption table and op letters equal the SAM specification's", Floor: 10, Run: ruleTabConsume},
			{Name: "DEP-ROLES", What: "Lengths/End/IsValid use the Query resp. Reference column of the consumption table for the right result", Floor: 4, Run: ruleDepRoles},
			{Name: "BIT-CIGAR", What: "CigarOp.Type/Len unpack length<<4|type (bit domain)", Floor: 2, Run: ruleBitCigar},
			{Name: "PATH-ENDMAX", What: "Record.End returns a running maximum carried through the CIGAR loop (B extension)", Floor: 1, Run: ruleEndMax},
			{Name: "CIGAR-SPLIT", What: "sam.ParseCigar, splitting a length above 2^28−1: what is left after a piece was taken off is shown positive before an operation is made from it – no zero-length operation for an exact multiple, which would fail IsValid for a valid CIGAR (shared with C06; added after seventh-round seeds C16-h, C06-h)", Floor: 2, Run: ruleCigarSplit},
			{Name: "LAST-BASE", What: "the index Add methods validate End()-1, the last base, not the exclusive End(): positions up to 2^29-2 are indexable, so an alignment may end at 2^29-1 (shared with C04)", Floor: 2, Run: ruleLastBase},
			{Name: "BIN-ARG-END", What: "csi.Add computes the bin from [Start(), End()): reg2bin takes an exclusive end, and the last base in its place files a record that ends on the first base of a smallest-level bin one bin too low (added after ninth-round seed C16-i)", Floor: 2, Run: ruleBinArgEnd},
			{Name: "SHARED-STATE", What: "the bin functions keep no package-level state that a call writes: a bin list is the caller's own (added after fifteenth-round seed C16-q: OverlappingBinsFor filling one shared buffer, so that two lists alive at once are one)", Floor: 1, Run: ruleSharedState([]string{"internal", "csi"})},
			{Name: "DEPTH-GUARD", What: "\"every CSI (minShift, depth) scheme\": csi.(*Index).Add assigns bins only for a depth whose numbering fits 32 bits; a deeper scheme is refused instead of being numbered wrongly (shared with C04)", Floor: 1, Run: ruleDepthGuard},
			{Name: "LEN-SPAN", What: "Record.Len is End() − Start() – the span on the reference, B extension included – not a sum of operation lengths (added after ninth-round seed C16-j)", Floor: 1, Run: ruleLenSpan},
		},
		Explanation: "Bin assignment and bin enumeration agree when they use the same (first bin, shift) pair on every level: BIN-PAIRS extracts the pairs of the BAI functions from their SSA (if-chain and level table) and compares them, by value, with the UCSC scheme; BIN-PAIRS-CSI interprets the two CSI recurrences (after checking that they do not depend on the coordinates) for seven geometries. TAB-CONSUME/DEP-ROLES/BIT-CIGAR: the consumption table equals the specification's and each result is driven by the right column.",
		NotDecided:  "End's max-over-prefix rule with the B extension, IsValid's clipping rules, CSI geometries other than the seven interpreted – value-level.",
	})
	register(&PropDef{
		ID: "C04", Title: "Index queries are complete: every overlapping record lies in a returned chunk", Level: "other",
		Rules: []RuleDef{binBAI, binCSI, binUnplaced, binOneWalk,
			{Name: "STATS-ADD", What: "tabix: a name is registered only when the underlying index created its reference (shared with C15; under C04 since a fifth-round seed: an unplaced record with a new name made the written index unreadable)", Floor: 4, Run: ruleStatsAdd},
			{Name: "CHUNKS-FRESH", What: "the list a Chunks method sorts and merges in place is built in that call, never an alias of the index's storage (shared with C17)", Floor: 2, Run: ruleChunksFresh},
			{Name: "REG2BINS-RANGE", What: "csi.reg2bins and internal.OverlappingBinsFor show beg ≥ 0, end beyond beg and end ≤ a power of two before they shift them into uint32 bin numbers that an unsigned counter walks: otherwise csi Chunks(rid, 0, 0), Chunks(rid, 0, MaxInt64) and bam Chunks(ref, -100000010, -100000009) never return (shared with C11; added for defects of the unchanged tree, repaired a0a1615, a8ada74)", Floor: 6, Run: ruleReg2binsRange},
			{Name: "IDX-SIGN", What: "in the exported index methods that can answer no (an ok or error result) an index or slice bound computed from an integer parameter is shown in range: Chunks with a region that starts before the reference, ReferenceStats for a reference the index does not have (shared with C11; defects of the unchanged tree, repaired cf18b3c, d6ea7d4)", Floor: 2, Run: ruleIdxSign},
			{Name: "INTERVAL-LIMIT", What: "a bound on the linear index's length in readIntervals admits all 2^29/16384 tiles: an index with a record in the last tile can be read back (shared with C15; added after ninth-round seed C04-i)", Floor: 1, Run: ruleIntervalLimit},
			{Name: "SORTED-SETTER", What: "the sorted flag Chunks' binary search relies on is set to true only by a function that sorts the bins by number (shared with C15; added after ninth-round seed C04-j: csi MergeChunks set it after sorting chunks only)", Floor: 4, Run: ruleSortedSetter},
			{Name: "BIN-ARG-END", What: "csi.Add hands reg2bin the record's exclusive End(), not its last base (shared with C16)", Floor: 2, Run: ruleBinArgEnd},
			{Name: "STRATEGY-BIND", What: "index.Adjacent – what every Chunks answer goes through – is the function adjacent that MERGE-STEP examines (shared with C17)", Floor: 3, Run: ruleStrategyBind},
			{Name: "LAST-BASE", What: "internal.(*Index).Add and csi.(*Index).Add validate the record's last base, End()-1, with the predicate on 0-based positions, not the exclusive End(): a record on the last base the index can hold is accepted (shared with C16; added for a defect of the unchanged tree)", Floor: 2, Run: ruleLastBase},
			{Name: "SHARED-STATE", What: "internal and csi keep no package-level state that a call writes: what Chunks enumerates and returns is the caller's own (shared with C16)", Floor: 1, Run: ruleSharedState([]string{"internal", "csi"})},
			{Name: "DEPTH-GUARD", What: "csi.(*Index).Add computes a record's bin only for an index whose depth was found at most 9: deeper schemes do not fit the 32-bit bin arithmetic and lose records silently (added for a defect of the unchanged tree, fourth hunt)", Floor: 1, Run: ruleDepthGuard},
			{Name: "LINEAR-KEEP", What: "internal.(*Index).Add only extends the linear index: the list is never cut back or assigned in place, a longer list is built over a copy of the old one and filled from max(first tile, old length) on – a tile keeps the offset of the first record that reached it (added after eleventh-round seed C04-k)", Floor: 2, Run: ruleLinearKeep},
			{Name: "STATS-BLIND", What: "no Chunks method (bam, internal, csi, tabix; through their callees) reads the reference statistics: a query is answered from bins and intervals alone (added after seventh-round seed C04-h: an early-out on Stats.Mapped == 0 loses references that hold only placed unmapped reads)", Floor: 4, Run: ruleStatsBlind},
			{Name: "ARG-AGREE", What: "Add and Chunks hand the same geometry to the bin function / bin enumeration; BAI and tabix file under BinFor of the record's own interval", Floor: 3, Run: ruleArgAgree},
			{Name: "COUPLED-TABIX", What: "tabix: refNames append ⇔ nameMap insert", Floor: 1, Run: ruleCoupledTabix},
			{Name: "SORTED-PRE", What: "every application of a merge strategy is to a chunk list sorted by begin offset", Floor: 5, Run: ruleSortedPre},
			{Name: "PANIC-REACH", What: "no explicit panic in Add/Chunks outside the reviewed table", Floor: 15, Run: rulePanicReach},
			{Name: "PRUNE-ROLE", What: "Chunks prunes a candidate chunk only by comparing its End with the reference offset of its own tile (BAI) / its own bin (CSI), keeping End > offset", Floor: 2, Run: rulePruneRole},
			{Name: "MERGE-STEP", What: "the merge step every Chunks result passes through (Adjacent) and those MergeChunks applies keep the left Begin and the larger End and remove exactly the left element (shared with C17; added after a blind second seed round)", Floor: 8, Run: ruleChunkMergeStep},
			{Name: "BIN-FIND", What: "Add updates an existing bin only at the position where a scan of the bin list found the record's bin number (no remembered positions that sort() would invalidate; added after a blind second seed round)", Floor: 2, Run: ruleBinFind},
		},
		Explanation: "Necessary conditions of completeness that hold by construction: the bin a record is filed under is among the bins enumerated for every overlapping query (BIN-PAIRS, BIN-PAIRS-CSI, ARG-AGREE), tabix maps each name to one id (COUPLED-TABIX), merge strategies only ever see sorted input (SORTED-PRE) and keep the span of what they merge (MERGE-STEP), pruning looks at the right offsets (PRUNE-ROLE), and adding sorted records cannot reach an explicit panic (PANIC-REACH).",
		NotDecided:  "the linear-index (16 KiB tile) arithmetic in Add – value-level (the defect in it found by reading was repaired, see known_findings.txt); state kept beside the bins (a lookup cache that sort() would invalidate – second-round seed C04-d, not reported).",
	})
}
