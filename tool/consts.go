// Constant folding helpers over SSA values.
package main

import (
	"go/constant"

	"golang.org/x/tools/go/ssa"
)

// constStringOf: a string constant, or a constant slice of one.
func constStringOf(v ssa.Value) (string, bool) {
	switch x := v.(type) {
	case *ssa.Const:
		if x.Value != nil && x.Value.Kind() == constant.String {
			return constant.StringVal(x.Value), true
		}
	case *ssa.Slice:
		s, ok := constStringOf(x.X)
		if !ok {
			return "", false
		}
		lo, hi := int64(0), int64(len(s))
		if x.Low != nil {
			k, ok := constInt(x.Low)
			if !ok {
				return "", false
			}
			lo = k
		}
		if x.High != nil {
			k, ok := constInt(x.High)
			if !ok {
				return "", false
			}
			hi = k
		}
		if lo < 0 || hi > int64(len(s)) || lo > hi {
			return "", false
		}
		return s[lo:hi], true
	case *ssa.ChangeType:
		return constStringOf(x.X)
	}
	return "", false
}
