// Effects of a function as symbolic keys: every store, map update and map
// delete, rendered over the function's parameters (see symeval.go). Used by the
// coupled-state rules: "whoever puts x into H.refs also sets x.owner = H, x.id =
// its index and H.seenRefs[x.name] = that id".
package main

import (
	"fmt"
	"os"

	"golang.org/x/tools/go/ssa"
)

type eff struct {
	Kind string // store | mapupdate | delete
	Addr string
	Val  string
	Ins  ssa.Instruction
}

func (e eff) String() string { return fmt.Sprintf("%s %s = %s", e.Kind, e.Addr, e.Val) }

func effectsOf(fn *ssa.Function) []eff {
	var out []eff
	allInstrs(fn, func(ins ssa.Instruction) {
		switch x := ins.(type) {
		case *ssa.Store:
			if ia, ok := x.Addr.(*ssa.IndexAddr); ok {
				if al, ok := ia.X.(*ssa.Alloc); ok && al.Comment == "varargs" {
					return
				}
			}
			out = append(out, eff{"store", symAddrKey(x.Addr, nil, 0), symKey(x.Val), ins})
		case *ssa.MapUpdate:
			out = append(out, eff{"mapupdate", symKey(x.Map) + "[" + symKey(x.Key) + "]", symKey(x.Value), ins})
		case *ssa.Call:
			if cc, ok := isBuiltinCall(x, "delete"); ok {
				out = append(out, eff{"delete", symKey(cc.Args[0]), symKey(cc.Args[1]), ins})
			}
		}
	})
	return out
}

func cmdEffects(args []string) int {
	if len(args) < 2 {
		fmt.Fprintln(os.Stderr, "usage: htsverif effects <pkg> <func>")
		return 2
	}
	c, err := Load(repoDir(), repoMod, false)
	if err != nil {
		fmt.Fprintln(os.Stderr, err)
		return 2
	}
	fn := c.Func(args[0], args[1])
	for _, e := range effectsOf(fn) {
		fmt.Printf("%-10s %s = %s   @%s\n", e.Kind, e.Addr, e.Val, c.Pos(e.Ins.Pos()))
	}
	return 0
}
