// Engine E4, continued: IDX-TABLE, DIV-ZERO, NILRET, PANIC-REACH.
package main

import (
	"fmt"
	"go/token"
	"go/types"
	"math"
	"sort"

	"golang.org/x/tools/go/ssa"
)

const posInf = math.MaxInt64 / 4

// edgeUB: refinement of the upper bound of e on edge k of block b.
func edgeUB(b *ssa.BasicBlock, k int, e ssa.Value) int64 {
	i := ifOf(b)
	if i == nil {
		return posInf
	}
	bo, ok := i.Cond.(*ssa.BinOp)
	if !ok {
		return posInf
	}
	c, isC := constInt(bo.Y)
	if !isC || !sameExpr(bo.X, e, 0) {
		return posInf
	}
	taken := k == 0
	switch bo.Op {
	case token.GTR: // e > c
		if !taken {
			return c
		}
	case token.GEQ:
		if !taken {
			return c - 1
		}
	case token.LSS:
		if taken {
			return c - 1
		}
	case token.LEQ:
		if taken {
			return c
		}
	case token.EQL:
		if taken {
			return c
		}
	case token.NEQ:
		if !taken {
			return c
		}
	}
	return posInf
}

func (bc *boundsCtx) upperBound(v ssa.Value, at *ssa.BasicBlock, depth int) int64 {
	ub := bc.upperBound0(v, at, depth)
	for _, b := range bc.fn.Blocks {
		if ifOf(b) == nil || !b.Dominates(at) || b.Succs[0] == b.Succs[1] {
			continue
		}
		for k := 0; k < 2; k++ {
			if dominatedByEdge(bc.fn, b, k, at) {
				if u := edgeUB(b, k, v); u < ub {
					ub = u
				}
			}
		}
	}
	return ub
}

func typeMax(t types.Type) int64 {
	if b, ok := t.Underlying().(*types.Basic); ok {
		if w, sg, ok := basicWidth(b); ok && w < 63 {
			if sg {
				return int64(1)<<uint(w-1) - 1
			}
			return int64(1)<<uint(w) - 1
		}
	}
	return posInf
}

func (bc *boundsCtx) upperBound0(v ssa.Value, at *ssa.BasicBlock, depth int) int64 {
	if depth > 8 {
		return posInf
	}
	tm := typeMax(v.Type())
	min := func(a, b int64) int64 {
		if a < b {
			return a
		}
		return b
	}
	switch x := v.(type) {
	case *ssa.Const:
		if k, ok := constInt(x); ok {
			return k
		}
	case *ssa.BinOp:
		switch x.Op {
		case token.AND:
			r := tm
			if k, ok := constInt(x.Y); ok && k >= 0 {
				r = min(r, k)
			}
			if k, ok := constInt(x.X); ok && k >= 0 {
				r = min(r, k)
			}
			return min(r, min(bc.upperBound(x.X, at, depth+1), bc.upperBound(x.Y, at, depth+1)))
		case token.REM:
			if k, ok := constInt(x.Y); ok && k > 0 {
				return min(tm, k-1)
			}
		case token.SHR:
			if k, ok := constInt(x.Y); ok && k >= 0 && k < 63 {
				if u := bc.upperBound(x.X, at, depth+1); u < posInf {
					return u >> uint(k)
				}
			}
		case token.QUO:
			if k, ok := constInt(x.Y); ok && k > 0 {
				if u := bc.upperBound(x.X, at, depth+1); u < posInf {
					return u / k
				}
			}
		case token.ADD:
			ux, uy := bc.upperBound(x.X, at, depth+1), bc.upperBound(x.Y, at, depth+1)
			if ux < posInf/2 && uy < posInf/2 && ux > -posInf/2 && uy > -posInf/2 {
				return min(tm, ux+uy)
			}
		case token.MUL:
			for _, pr := range [][2]ssa.Value{{x.X, x.Y}, {x.Y, x.X}} {
				if k, ok := constInt(pr[1]); ok && k >= 0 && k < 1<<20 {
					if u := bc.upperBound(pr[0], at, depth+1); u < posInf>>20 && u >= 0 && bc.lowerBound(pr[0], at, depth+1) >= 0 {
						return min(tm, u*k)
					}
				}
			}
		}
	case *ssa.Convert:
		if u := bc.upperBound(x.X, at, depth+1); u < tm {
			if bc.lowerBound(x.X, at, depth+1) >= 0 {
				return u
			}
		}
	case *ssa.ChangeType:
		return bc.upperBound(x.X, at, depth+1)
	case *ssa.Phi:
		worst := int64(-1)
		for i, e := range x.Edges {
			if e == v {
				continue
			}
			p := x.Block().Preds[i]
			u := bc.upperBound(e, p, depth+2)
			for k, s := range p.Succs {
				if s == x.Block() {
					if eu := edgeUB(p, k, e); eu < u {
						u = eu
					}
				}
			}
			if u > worst {
				worst = u
			}
		}
		if worst >= 0 {
			return min(tm, worst)
		}
	}
	return tm
}

// globalTableLen: the length of a package-level table: an array, or a slice
// assigned exactly once (in the package initialiser) from a literal.
func globalTableLen(c *Ctx, g *ssa.Global) (int64, bool) {
	t := g.Type().(*types.Pointer).Elem()
	if a, ok := t.Underlying().(*types.Array); ok {
		return a.Len(), true
	}
	if _, ok := t.Underlying().(*types.Slice); !ok {
		return 0, false
	}
	var n int64 = -1
	stores := 0
	for _, f := range c.SrcFuncs() {
		allInstrs(f, func(ins ssa.Instruction) {
			if st, ok := ins.(*ssa.Store); ok && st.Addr == ssa.Value(g) {
				stores++
				if sl, ok := st.Val.(*ssa.Slice); ok {
					if pt, ok := sl.X.Type().Underlying().(*types.Pointer); ok {
						if a, ok := pt.Elem().Underlying().(*types.Array); ok && sl.Low == nil && sl.High == nil {
							n = a.Len()
						}
					}
				}
			}
		})
	}
	inScope := false
	for _, f := range c.SrcFuncs() {
		if g.Pkg != nil && f == g.Pkg.Func("init") {
			inScope = true
		}
	}
	if g.Pkg != nil && !inScope {
		if init := g.Pkg.Func("init"); init != nil {
			allInstrs(init, func(ins ssa.Instruction) {
				if st, ok := ins.(*ssa.Store); ok && st.Addr == ssa.Value(g) {
					stores++
					if sl, ok := st.Val.(*ssa.Slice); ok {
						if pt, ok := sl.X.Type().Underlying().(*types.Pointer); ok {
							if a, ok := pt.Elem().Underlying().(*types.Array); ok && sl.Low == nil && sl.High == nil {
								n = a.Len()
							}
						}
					}
				}
			})
		}
	}
	if stores == 1 && n >= 0 {
		return n, true
	}
	return 0, false
}

func ruleIdxTable(c *Ctx, r *Rep, tier string) {
	rule := "IDX-TABLE"
	initStoreSummary(c)
	for _, fn := range boundsScope(c) {
		bc := &boundsCtx{c: c, fn: fn}
		allInstrs(fn, func(ins ssa.Instruction) {
			var cont, idx ssa.Value
			switch x := ins.(type) {
			case *ssa.IndexAddr:
				cont, idx = x.X, x.Index
			case *ssa.Index:
				cont, idx = x.X, x.Index
			default:
				return
			}
			var g *ssa.Global
			switch x := cont.(type) {
			case *ssa.Global:
				g = x
			case *ssa.UnOp:
				if x.Op == token.MUL {
					g, _ = x.X.(*ssa.Global)
				}
			}
			if g == nil {
				return
			}
			n, ok := globalTableLen(c, g)
			if !ok {
				return
			}
			if _, isC := idx.(*ssa.Const); isC {
				return // constant index into a table: compiler / IDX-CONST
			}
			r.Instance(rule, 1)
			key := fmt.Sprintf("%s#%s[]", c.FnName(fn), g.Name())
			ub := bc.upperBound(idx, ins.Block(), 0)
			lb := bc.lowerBound(idx, ins.Block(), 0)
			if ub < n && lb >= 0 {
				r.Pass(rule, key, c.Pos(ins.Pos()), fmt.Sprintf("index ∈ [0,%d] ⊆ [0,%d)", ub, n))
				return
			}
			// loop index bounded by len(table): i < len(g)
			if bc.boundedByLenOf(idx, g, ins.Block()) {
				r.Pass(rule, key, c.Pos(ins.Pos()), "index compared with the table's length on a dominating edge / range index")
				return
			}
			if why, ok := idxTrusted["IDX-TABLE|"+c.FnName(fn)]; ok {
				r.Trusted(rule, 1)
				r.Pass(rule, key, c.Pos(ins.Pos()), "assumed invariant: "+why)
				return
			}
			ubs := fmt.Sprint(ub)
			if ub >= posInf {
				ubs = "unbounded"
			}
			r.Fail(rule, key, c.Pos(ins.Pos()), fmt.Sprintf("table %s has %d entries but the index can be as large as %s (lower bound %d): a value outside the table panics", g.Name(), n, ubs, lb))
		})
	}
}

// boundedByLenOf: idx is a range/loop index over the same table.
func (bc *boundsCtx) boundedByLenOf(idx ssa.Value, g *ssa.Global, at *ssa.BasicBlock) bool {
	for _, b := range bc.fn.Blocks {
		i := ifOf(b)
		if i == nil || !b.Dominates(at) {
			continue
		}
		bo, ok := i.Cond.(*ssa.BinOp)
		if !ok || bo.Op != token.LSS || !sameExpr(bo.X, idx, 0) {
			continue
		}
		if arg, isL := isLenCall(bo.Y); isL {
			if u, ok := arg.(*ssa.UnOp); ok && u.X == ssa.Value(g) {
				if dominatedByEdge(bc.fn, b, 0, at) {
					return true
				}
			}
		}
		if k, isK := constInt(bo.Y); isK {
			if n, ok := globalTableLen(bc.c, g); ok && k <= n && dominatedByEdge(bc.fn, b, 0, at) {
				return true
			}
		}
	}
	return false
}

func ruleDivZero(c *Ctx, r *Rep, tier string) {
	rule := "DIV-ZERO"
	initStoreSummary(c)
	for _, fn := range boundsScope(c) {
		bc := &boundsCtx{c: c, fn: fn}
		allInstrs(fn, func(ins ssa.Instruction) {
			bo, ok := ins.(*ssa.BinOp)
			if !ok || (bo.Op != token.QUO && bo.Op != token.REM) {
				return
			}
			b, ok := bo.Y.Type().Underlying().(*types.Basic)
			if !ok || b.Info()&types.IsInteger == 0 {
				return
			}
			if k, isK := constInt(bo.Y); isK && k != 0 {
				return
			}
			r.Instance(rule, 1)
			key := c.FnName(fn) + "#div"
			if bc.lowerBound(bo.Y, bo.Block(), 0) >= 1 {
				r.Pass(rule, key, c.Pos(bo.Pos()), "divisor ≥ 1 on every path")
				return
			}
			if bc.excludesZero(bo.Y, false, bo.Block()) {
				r.Pass(rule, key, c.Pos(bo.Pos()), "divisor tested non-zero on a dominating edge")
				return
			}
			r.Fail(rule, key, c.Pos(bo.Pos()), "integer division by a value that is not shown to be non-zero on every path (a zero taken from the input panics)")
		})
	}
}

func ruleNilRet(c *Ctx, r *Rep, tier string) {
	rule := "NILRET"
	errT := types.Universe.Lookup("error").Type()
	for _, fn := range boundsScope(c) {
		if fn.Parent() != nil || fn.Object() == nil || !fn.Object().Exported() {
			continue
		}
		// decoders / constructors: Read…, New…, Parse…, Decode…, Unmarshal…, Open…
		isDec := false
		for _, p := range []string{"Read", "New", "Parse", "Decode", "Unmarshal", "Open"} {
			if len(fn.Name()) >= len(p) && fn.Name()[:len(p)] == p {
				isDec = true
			}
		}
		if !isDec {
			continue
		}
		res := fn.Signature.Results()
		if res.Len() < 2 || !types.Identical(res.At(res.Len()-1).Type(), errT) {
			continue
		}
		if _, isPtr := res.At(0).Type().Underlying().(*types.Pointer); !isPtr {
			continue
		}
		r.Instance(rule, 1)
		key := c.FnName(fn) + "#nil,nil"
		var bad ssa.Instruction
		allInstrs(fn, func(ins ssa.Instruction) {
			ret, ok := ins.(*ssa.Return)
			if !ok {
				return
			}
			if isNilConst(retValue(ret, 0)) && isNilConst(retValue(ret, res.Len()-1)) {
				bad = ins
			}
		})
		if bad != nil {
			r.Fail(rule, key, c.Pos(bad.Pos()), "returns a nil pointer together with a nil error: the caller's next method call on the result panics")
		} else {
			r.Pass(rule, key, c.Pos(fn.Pos()), "no return of (nil, …, nil)")
		}
	}
}

// panicTable: every explicit panic in the library, reviewed by reading.
// key = function name, value = classification and reason. Classes:
//
//	contract: reachable only through misuse of the API by the caller (argument
//	          the API documents as illegal), not through decoded input;
//	internal: internal consistency check that decoded input cannot reach;
//	recover:  re-panic / panic that a deferred recover in the same package
//	          converts into an error.
var panicTable = map[string]string{
	"bgzf.newCountReader":              "internal: a countReader is never passed back in by the library",
	"bgzf.(*buffer).readLimited":       "internal: readMember resets the buffer before every call (checked: reset dominates the call)",
	"bgzf.(*decompressor).nextBlockAt": "internal: offset out of register without a ReadSeeker cannot happen unless Seek was called, which requires a ReadSeeker",
	"bgzf.(*Reader).nextBlock":         "internal: the read-ahead pipeline delivers blocks in offset order",
	"bgzf.init#1":                      "internal: compile-time constant relation, evaluated at start-up",
	"sam.NewCigarOp":                   "contract: length argument supplied by the API user (the BAM reader constructs CigarOps by conversion, not through NewCigarOp)",
	"sam.NewTag":                       "contract: documented – panics if len(tag) != 2; not called by any decoder with input-derived text (checked: NO-CALLER-FROM-DECODER)",
	"sam.formatFlags":                  "contract: flag format chosen by the caller of MarshalSAMFlags",
	"sam.(*Record).Tag":                "contract: documented – the caller passes a tag shorter than two bytes",
	"sam.Aux.Value":                    "internal: unreachable while the Aux invariant holds (payload length matches the declared type/count), established by bam.parseAux, sam.NewAux, sam.ParseAux",
	"fai.Record.Position":              "contract: documented – position outside [0, Length) is the caller's error",
	"fai.mustAtoi":                     "recover: converted to an error by ReadFrom's deferred recover",
	"fai.mustAtoi64":                   "recover: converted to an error by ReadFrom's deferred recover",
	"fai.ReadFrom$1":                   "recover: re-panics only values that are not parse errors",
}

func rulePanicReach(c *Ctx, r *Rep, tier string) {
	rule := "PANIC-REACH"
	type site struct {
		fn  *ssa.Function
		ins ssa.Instruction
	}
	var sites []site
	for _, fn := range boundsScope(c) {
		allInstrs(fn, func(ins ssa.Instruction) {
			if _, ok := ins.(*ssa.Panic); ok {
				sites = append(sites, site{fn, ins})
			}
		})
	}
	sort.Slice(sites, func(i, j int) bool { return sites[i].ins.Pos() < sites[j].ins.Pos() })
	for _, s := range sites {
		// go/ssa emits a panic for exhausted blocking selects: not an explicit panic
		if s.ins.Pos() == token.NoPos {
			continue
		}
		r.Instance(rule, 1)
		name := c.FnName(s.fn)
		key := name + "#panic"
		if why, ok := panicTable[name]; ok {
			r.Pass(rule, key, c.Pos(s.ins.Pos()), why)
			continue
		}
		r.Fail(rule, key, c.Pos(s.ins.Pos()), "explicit panic in library code that is not in the reviewed table (caller-contract / internal / recovered): a decoder or index builder may reach it with hostile or merely unusual input")
	}
}
