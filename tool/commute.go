// Commute invariance: a third behaviour-preserving rewrite used as a self-test.
// The operands of +, *, |, &, ^ on integers are exchanged wherever neither
// contains a call (so the order of evaluation does not matter).
package main

import (
	"fmt"
	"go/ast"
	"go/format"
	"go/token"
	"go/types"
	"os"
	"path/filepath"

	"golang.org/x/tools/go/packages"
)

func commuteArithmetic(src, dst string) (int, error) {
	cfg := &packages.Config{Mode: packages.LoadSyntax, Dir: src, Tests: false, Env: goEnv()}
	pkgs, err := packages.Load(cfg, "./...")
	if err != nil {
		return 0, err
	}
	n := 0
	for _, p := range pkgs {
		if len(p.Errors) > 0 {
			return 0, fmt.Errorf("%v", p.Errors)
		}
		callFree := func(e ast.Expr) bool {
			ok := true
			ast.Inspect(e, func(nd ast.Node) bool {
				switch nd.(type) {
				case *ast.CallExpr, *ast.FuncLit:
					ok = false
				}
				return ok
			})
			return ok
		}
		isInt := func(e ast.Expr) bool {
			tv, ok := p.TypesInfo.Types[e]
			if !ok || tv.Value != nil { // leave constant expressions alone
				return false
			}
			b, ok := tv.Type.Underlying().(*types.Basic)
			return ok && b.Info()&types.IsInteger != 0
		}
		for i, f := range p.Syntax {
			ast.Inspect(f, func(nd ast.Node) bool {
				be, ok := nd.(*ast.BinaryExpr)
				if !ok {
					return true
				}
				switch be.Op {
				case token.ADD, token.MUL, token.OR, token.AND, token.XOR:
					if isInt(be) && callFree(be.X) && callFree(be.Y) {
						// keep the parse: a+b*c must not become b*c+a with other grouping – it does not, the tree is swapped, not the text
						be.X, be.Y = be.Y, be.X
						n++
					}
				}
				return true
			})
			rel, err := filepath.Rel(src, p.CompiledGoFiles[i])
			if err != nil {
				return n, err
			}
			out := filepath.Join(dst, rel)
			if err := os.MkdirAll(filepath.Dir(out), 0o755); err != nil {
				return n, err
			}
			w, err := os.Create(out)
			if err != nil {
				return n, err
			}
			if err := format.Node(w, p.Fset, f); err != nil {
				w.Close()
				return n, err
			}
			w.Close()
		}
	}
	return n, nil
}

func cmdCommute(args []string) int {
	if len(args) != 2 {
		usage()
	}
	n, err := commuteArithmetic(args[0], args[1])
	if err != nil {
		fmt.Fprintln(os.Stderr, err)
		return 2
	}
	fmt.Printf("commuted %d operations\n", n)
	return 0
}
