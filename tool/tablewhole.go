// DROP-COUNT, second part: a cache's table is not replaced wholesale. A store
// to the map field of a cache through its receiver removes every entry at once,
// whatever count the caller asked for; it is admitted only in a drop(n) function
// on an edge that has shown that the count covers the whole table:
//
//	n ≥ len(table), or
//	n ≥ cap – where cap is the field the type's Cap() returns – provided no
//	caller of this drop stores to that field on a way to the call (the caches
//	keep len(table) ≤ cap between calls, CACHE-PUT-CAP; a caller that has just
//	lowered cap has broken that for the duration of the call).
//
// Added after sixth-round seed C14-g (a "drop everything" shortcut guarded by
// n ≥ cap, which Resize – changed to lower cap first – reaches with more entries
// than n).
package main

import (
	"fmt"
	"go/token"
	"go/types"

	"golang.org/x/tools/go/ssa"
)

// capFieldOf: the index of the field that the Cap method of fn's receiver type returns.
func capFieldOf(c *Ctx, fn *ssa.Function) int {
	recvT := fn.Signature.Recv().Type()
	for _, g := range c.FuncsIn("bgzf/cache") {
		if g.Name() != "Cap" || g.Signature.Recv() == nil || !types.Identical(g.Signature.Recv().Type(), recvT) {
			continue
		}
		field := -1
		allInstrs(g, func(ins ssa.Instruction) {
			ret, ok := ins.(*ssa.Return)
			if !ok || len(ret.Results) != 1 {
				return
			}
			if ld, ok := stripConv(retValue(ret, 0)).(*ssa.UnOp); ok && ld.Op == token.MUL {
				if fa, ok := ld.X.(*ssa.FieldAddr); ok && origin(fa.X) == ssa.Value(g.Params[0]) {
					field = fa.Field
				}
			}
		})
		return field
	}
	return -1
}

func ruleTableWhole(c *Ctx, r *Rep, rule string) {
	for _, fn := range c.FuncsIn("bgzf/cache") {
		if fn.Signature.Recv() == nil || len(fn.Params) == 0 {
			continue
		}
		recv := fn.Params[0]
		fn := fn
		k := 0
		allInstrs(fn, func(ins ssa.Instruction) {
			st, ok := ins.(*ssa.Store)
			if !ok {
				return
			}
			fa, ok := st.Addr.(*ssa.FieldAddr)
			if !ok || origin(fa.X) != ssa.Value(recv) {
				return
			}
			if _, isMap := st.Val.Type().Underlying().(*types.Map); !isMap {
				return
			}
			k++
			r.Instance(rule, 1)
			key := fmt.Sprintf("%s#table-replaced~%d", c.FnName(fn), k)
			var n *ssa.Parameter
			if fn.Name() == "drop" && len(fn.Params) == 2 {
				n = fn.Params[1]
			}
			capField := capFieldOf(c, fn)
			isN := func(v ssa.Value) bool { return n != nil && stripConv(v) == ssa.Value(n) }
			loadOf := func(v ssa.Value, field int) bool {
				ld, ok := v.(*ssa.UnOp)
				if !ok || ld.Op != token.MUL {
					return false
				}
				f2, ok := ld.X.(*ssa.FieldAddr)
				return ok && f2.Field == field && origin(f2.X) == ssa.Value(recv)
			}
			// what the count is compared with: 1 the table's length, 2 the capacity
			bound := func(v ssa.Value) int {
				if arg, ok := isLenCall(v); ok && loadOf(arg, fa.Field) {
					return 1
				}
				if capField >= 0 && loadOf(stripConv(v), capField) {
					return 2
				}
				return 0
			}
			byLen, byCap := false, false
			for _, b := range fn.Blocks {
				iff := ifOf(b)
				if iff == nil {
					continue
				}
				bo, ok := iff.Cond.(*ssa.BinOp)
				if !ok {
					continue
				}
				edge, what := -1, 0
				switch {
				case isN(bo.X) && bound(bo.Y) != 0:
					what = bound(bo.Y)
					switch bo.Op {
					case token.GEQ, token.GTR, token.EQL:
						edge = 0
					case token.LSS:
						edge = 1
					}
				case bound(bo.X) != 0 && isN(bo.Y):
					what = bound(bo.X)
					switch bo.Op {
					case token.LEQ, token.LSS, token.EQL:
						edge = 0
					case token.GTR:
						edge = 1
					}
				}
				if edge >= 0 && dominatedByEdge(fn, b, edge, st.Block()) {
					if what == 1 {
						byLen = true
					} else {
						byCap = true
					}
				}
			}
			why := ""
			switch {
			case byLen:
			case byCap:
				// no caller has written the capacity on a way to its call of this function
				for _, g := range c.FuncsIn("bgzf/cache") {
					g := g
					allInstrs(g, func(ins ssa.Instruction) {
						call, ok := ins.(*ssa.Call)
						if !ok || staticCallee(&call.Call) != fn || why != "" {
							return
						}
						allInstrs(g, func(w ssa.Instruction) {
							ws, ok := w.(*ssa.Store)
							if !ok {
								return
							}
							wf, ok := ws.Addr.(*ssa.FieldAddr)
							if !ok || wf.Field != capField || !types.Identical(wf.X.Type(), recv.Type()) {
								return
							}
							if _, reach := pathTo(locOf(ws), is(call), nil, nil); reach {
								why = fmt.Sprintf("%s replaces the cache's table at %s when n ≥ cap, and %s sets the capacity (%s) before it calls it: with the capacity lowered below the number of entries the count no longer covers the table, and a shrink by n empties the cache", c.FnName(fn), c.Pos(st.Pos()), c.FnName(g), c.Pos(ws.Pos()))
							}
						})
					})
				}
			default:
				why = fmt.Sprintf("%s replaces the cache's table at %s: every entry goes at once, whatever the count asked for, and nothing has shown that the count covers the whole table", c.FnName(fn), c.Pos(st.Pos()))
			}
			r.Check(why == "", rule, key, c.Pos(st.Pos()), "only where the count covers the whole table", why)
		})
	}
}
