// C08 (+C01): BGZF constants against the specification, BSIZE framing pair,
// HasEOF, FEXTRA placement.
package main

import (
	"fmt"
	"go/constant"
	"go/token"
	"go/types"

	"golang.org/x/tools/go/ssa"
)

// spec oracle (SAM specification §4.1)
const (
	specBlockSize    = 0xff00
	specMaxBlockSize = 0x10000
	specExtra        = "BC\x02\x00\x00\x00"
	specEOF          = "\x1f\x8b\x08\x04\x00\x00\x00\x00\x00\xff\x06\x00\x42\x43\x02\x00\x1b\x00\x03\x00\x00\x00\x00\x00\x00\x00\x00\x00"
)

func pkgConst(c *Ctx, pkg, name string) constant.Value {
	p := c.ByPath[pkg]
	if p == nil {
		unresolved("package %s", pkg)
	}
	k, ok := p.Types.Scope().Lookup(name).(*types.Const)
	if !ok {
		unresolved("constant %s.%s", pkg, name)
	}
	return k.Val()
}

func arrayLenOfField(c *Ctx, pkg, typ, field string) int64 {
	f := c.Field(pkg, typ, field)
	a, ok := f.Type().Underlying().(*types.Array)
	if !ok {
		return -1
	}
	return a.Len()
}

func ruleBgzfConstants(c *Ctx, r *Rep, tier string) {
	rule := "TAB-BGZF"
	chk := func(key string, ok bool, just, detail string) {
		r.Instance(rule, 1)
		r.Check(ok, rule, key, "bgzf/bgzf.go", just, detail)
	}
	bs, _ := constant.Int64Val(pkgConst(c, "bgzf", "BlockSize"))
	mbs, _ := constant.Int64Val(pkgConst(c, "bgzf", "MaxBlockSize"))
	chk("bgzf.BlockSize", bs == specBlockSize, "0xff00", fmt.Sprintf("BlockSize = %#x, specification payload bound is 0xff00", bs))
	chk("bgzf.MaxBlockSize", mbs == specMaxBlockSize, "0x10000", fmt.Sprintf("MaxBlockSize = %#x, a BGZF member is at most 0x10000 bytes (BSIZE is 16 bit)", mbs))
	ex := constant.StringVal(pkgConst(c, "bgzf", "bgzfExtra"))
	chk("bgzf.bgzfExtra", ex == specExtra, "BC, SLEN=2, two placeholder bytes", fmt.Sprintf("bgzfExtra = %q, specification: %q", ex, specExtra))
	mg := constant.StringVal(pkgConst(c, "bgzf", "magicBlock"))
	chk("bgzf.magicBlock", mg == specEOF, "28-byte EOF marker of the specification", fmt.Sprintf("magicBlock differs from the specification's EOF marker (%d bytes)", len(mg)))
	mf, _ := constant.Int64Val(pkgConst(c, "bgzf", "minFrame"))
	chk("bgzf.minFrame", mf == 26, "20 + len(extra)", fmt.Sprintf("minFrame = %d, want 26", mf))
	chk("bgzf.compressor.block", arrayLenOfField(c, "bgzf", "compressor", "block") == bs, "payload buffer is [BlockSize]byte: a member never carries more than BlockSize bytes", "compressor.block is not [BlockSize]byte")
	chk("bgzf.block.data", arrayLenOfField(c, "bgzf", "block", "data") == mbs, "[MaxBlockSize]byte", "block.data is not [MaxBlockSize]byte")
	chk("bgzf.buffer.data", arrayLenOfField(c, "bgzf", "buffer", "data") == mbs, "[MaxBlockSize]byte", "buffer.data is not [MaxBlockSize]byte")
	// compressBound(BlockSize) <= MaxBlockSize by interpretation
	cb := c.Func("bgzf", "compressBound")
	outs, ev, undec := execFn(cb, []absVal{konst(uint64(bs), 64, true)}, nil, 0)
	ok := false
	detail := undec + fmt.Sprint(ev)
	if undec == "" && len(outs) == 1 {
		if v, isInt := asInt(outs[0].rets, 0); isInt {
			ok = v <= mbs && v > bs
			detail = fmt.Sprintf("compressBound(BlockSize) = %d", v)
		}
	}
	chk("bgzf.compressBound", ok, detail+" ≤ MaxBlockSize", "an incompressible full block may not fit a 64 KiB member: "+detail)
	// the prefix searched for is the first four bytes of the extra field
	init := c.SSA["bgzf"].Func("init")
	found := false
	allInstrs(init, func(ins ssa.Instruction) {
		st, isSt := ins.(*ssa.Store)
		if !isSt {
			return
		}
		g, isG := st.Addr.(*ssa.Global)
		if !isG || g.Name() != "bgzfExtraPrefix" {
			return
		}
		if cv, isC := strip(st.Val).(*ssa.Convert); isC {
			if s, ok := constStringOf(cv.X); ok && s == specExtra[:4] {
				found = true
			}
		}
	})
	chk("bgzf.bgzfExtraPrefix", found, "BC\\x02\\x00", "bgzfExtraPrefix is not initialised to the subfield identifier and length BC,2,0")
}

// ruleBSize: writeBlock patches BSIZE = len(member)-1 little endian at +4/+5
// of the BC subfield under a guard size < MaxBlockSize; expectedMemberSize is
// its inverse.
func ruleBSize(c *Ctx, r *Rep, tier string) {
	rule := "BIT-BSIZE"
	wb := c.Func("bgzf", "(*compressor).writeBlock")
	r.Instance(rule, 1)
	why := ""
	// stores through IndexAddr(b, i+k)
	type patch struct {
		st  *ssa.Store
		off int64
		idx *ssa.Call
	}
	var patches []patch
	var base ssa.Value
	var searchFrom int64
	allInstrs(wb, func(ins ssa.Instruction) {
		st, ok := ins.(*ssa.Store)
		if !ok {
			return
		}
		ia, ok := st.Addr.(*ssa.IndexAddr)
		if !ok {
			return
		}
		// index = bytes.Index(member[L:], prefix) + L + k, however it is
		// grouped: one Index call with coefficient 1 plus a constant; the
		// position relative to the subfield start is that constant minus L
		var call *ssa.Call
		var walk func(v ssa.Value, d int)
		walk = func(v ssa.Value, d int) {
			if d > 6 {
				return
			}
			switch x := v.(type) {
			case *ssa.BinOp:
				walk(x.X, d+1)
				walk(x.Y, d+1)
			case *ssa.Call:
				if calleeFullName(&x.Call) == "bytes.Index" {
					call = x
				}
			}
		}
		walk(ia.Index, 0)
		if call == nil {
			return
		}
		p := polyOf(ia.Index, nil)
		k := p[""]
		if len(p) > 2 || p[symKey(call)] != 1 {
			return
		}
		if sl, isSl := call.Call.Args[0].(*ssa.Slice); isSl && sl.Low != nil {
			if lo, isK := constInt(sl.Low); isK {
				k -= lo
				searchFrom = lo
			}
		}
		patches = append(patches, patch{st, k, call})
		base = ia.X
	})
	// the search must not cover the fixed header: the four MTIME bytes can
	// spell the subfield's prefix
	r.Instance(rule, 1)
	r.Check(searchFrom >= 12, rule, "bgzf.(*compressor).writeBlock#search-in-extra", c.Pos(wb.Pos()), fmt.Sprintf("the BC prefix is searched from offset %d on (the extra field begins at 12)", searchFrom), fmt.Sprintf("the BC prefix is searched from offset %d of the member: a ModTime of 42 43 02 00 is matched first and BSIZE is patched over XFL/OS", searchFrom))
	if len(patches) != 2 {
		r.Fail(rule, "bgzf.(*compressor).writeBlock#bsize", c.Pos(wb.Pos()), fmt.Sprintf("expected two byte stores at bytes.Index(member, prefix)+k, found %d: undecided", len(patches)))
	} else {
		// the size value: compared with MaxBlockSize on a dominating guard
		var size ssa.Value
		for _, b := range wb.Blocks {
			i := ifOf(b)
			if i == nil {
				continue
			}
			bo, ok := i.Cond.(*ssa.BinOp)
			if !ok {
				continue
			}
			k, isK := constInt(bo.Y)
			if !isK || k != specMaxBlockSize {
				continue
			}
			var okEdge int
			switch bo.Op {
			case token.GEQ:
				okEdge = 1
			case token.LSS:
				okEdge = 0
			default:
				continue
			}
			if dominatedByEdge(wb, b, okEdge, patches[0].st.Block()) && dominatedByEdge(wb, b, okEdge, patches[1].st.Block()) {
				size = bo.X
			}
		}
		if size == nil {
			why += " the BSIZE stores are not guarded by size < MaxBlockSize (a larger member would be truncated to 16 bits);"
		} else {
			// size = len(base) - 1
			sb, ok := size.(*ssa.BinOp)
			good := false
			if ok && sb.Op == token.SUB {
				if k, isK := constInt(sb.Y); isK && k == 1 {
					if call, isCall := sb.X.(*ssa.Call); isCall {
						if cc, isLen := isBuiltinCall(call, "len"); isLen && cc.Args[0] == base {
							good = true
						}
					}
				}
			}
			if !good {
				why += " the value stored is not len(member)-1 of the member being patched;"
			}
			// bit-level: evaluate the stored expressions with size symbolic (16 bits by the guard)
			for _, p := range patches {
				v, ok := evalExprBits(p.st.Val, map[ssa.Value]bv{size: symBV(64, true, 0)})
				wantLo := 0
				switch p.off {
				case 4:
					wantLo = 0
				case 5:
					wantLo = 8
				default:
					why += fmt.Sprintf(" a byte of BSIZE is stored at subfield offset %d (want 4 and 5);", p.off)
					continue
				}
				if !ok || len(v.bits) != 8 {
					why += " cannot evaluate the stored byte;"
					continue
				}
				for t := 0; t < 8; t++ {
					if v.bits[t] != bIn(wantLo+t) {
						why += fmt.Sprintf(" byte at +%d bit %d is %v, want bit %d of size;", p.off, t, v.bits[t], wantLo+t)
					}
				}
				// the index call searches the member for the prefix global
				searched := p.idx.Call.Args[0]
				if sl, isSl := searched.(*ssa.Slice); isSl && sl.High == nil {
					searched = sl.X // member[L:]
				}
				if len(p.idx.Call.Args) != 2 || searched != base {
					why += " the subfield is not searched in the member being patched;"
				}
			}
			if patches[0].off == patches[1].off {
				why += " both bytes stored at the same offset;"
			}
		}
		r.Check(why == "", rule, "bgzf.(*compressor).writeBlock#bsize", c.Pos(patches[0].st.Pos()), "BSIZE = len(member)-1, low byte at +4, high byte at +5, guarded by size < 0x10000", why)
	}

	// reader side
	ems := c.Func("bgzf", "expectedMemberSize")
	r.Instance(rule, 1)
	why = ""
	nret := 0
	allInstrs(ems, func(ins ssa.Instruction) {
		ret, ok := ins.(*ssa.Return)
		if !ok {
			return
		}
		if k, isK := constInt(ret.Results[0]); isK {
			if k != -1 {
				why += fmt.Sprintf(" constant return %d;", k)
			}
			return
		}
		nret++
		add, ok := ret.Results[0].(*ssa.BinOp)
		if !ok || add.Op != token.ADD {
			why += " result is not (…)+1;"
			return
		}
		if k, isK := constInt(add.Y); !isK || k != 1 {
			why += " result is not (…)+1;"
			return
		}
		// leaves: loads h.Extra[i+4], h.Extra[i+5]
		env := map[ssa.Value]bv{}
		offs := map[int64]bool{}
		var walk func(v ssa.Value)
		walk = func(v ssa.Value) {
			switch x := v.(type) {
			case *ssa.BinOp:
				walk(x.X)
				walk(x.Y)
			case *ssa.Convert:
				walk(x.X)
			case *ssa.UnOp:
				if ia, ok := x.X.(*ssa.IndexAddr); ok && x.Op == token.MUL {
					if bo, ok := ia.Index.(*ssa.BinOp); ok && bo.Op == token.ADD {
						if k, isK := constInt(bo.Y); isK {
							offs[k] = true
							env[x] = symBV(8, false, int(8*(k-4)))
						}
					}
				}
			}
		}
		walk(add.X)
		if !offs[4] || !offs[5] || len(offs) != 2 {
			why += fmt.Sprintf(" reads subfield offsets %v, want 4 and 5;", offs)
			return
		}
		v, ok := evalExprBits(add.X, env)
		if !ok {
			why += " cannot evaluate the size expression;"
			return
		}
		for t := 0; t < len(v.bits); t++ {
			want := bit(0)
			if t < 16 {
				want = bIn(t)
			}
			if v.bits[t] != want {
				why += fmt.Sprintf(" size bit %d is %v, want %v;", t, v.bits[t], want)
				break
			}
		}
	})
	if nret != 1 {
		why += fmt.Sprintf(" %d computed returns;", nret)
	}
	r.Check(why == "", rule, "bgzf.expectedMemberSize#inverse", c.Pos(ems.Pos()), "(Extra[i+4] | Extra[i+5]<<8) + 1: the inverse of the writer's BSIZE", why)
}

// evalExprBits evaluates a pure SSA expression DAG in the bit domain with the
// given leaves.
func evalExprBits(v ssa.Value, env map[ssa.Value]bv) (bv, bool) {
	if b, ok := env[v]; ok {
		return b, true
	}
	st := &istate{}
	ip := &interp{}
	switch x := v.(type) {
	case *ssa.Const:
		if r, ok := ip.get(&frame{env: map[ssa.Value]absVal{}}, st, x).(bv); ok {
			return r, true
		}
	case *ssa.Convert:
		a, ok := evalExprBits(x.X, env)
		if !ok {
			return bv{}, false
		}
		if w, sg, ok := basicWidth(x.Type()); ok {
			return convertBV(a, w, sg), true
		}
	case *ssa.ChangeType:
		return evalExprBits(x.X, env)
	case *ssa.BinOp:
		a, ok1 := evalExprBits(x.X, env)
		b, ok2 := evalExprBits(x.Y, env)
		if !ok1 || !ok2 {
			return bv{}, false
		}
		var ev []string
		st.events = &ev
		return binop(st, x.Op, a, b)
	case *ssa.UnOp:
		if x.Op == token.XOR {
			a, ok := evalExprBits(x.X, env)
			if !ok {
				return bv{}, false
			}
			r := bv{bits: make([]bit, len(a.bits)), signed: a.signed}
			for i := range r.bits {
				r.bits[i] = bnot(a.bits[i])
			}
			return r, true
		}
	}
	return bv{}, false
}

// ruleHasEOF: HasEOF reads exactly len(magicBlock) trailing bytes and compares
// them with magicBlock.
func ruleHasEOF(c *Ctx, r *Rep, tier string) {
	rule := "PATH-HASEOF"
	fn := c.Func("bgzf", "HasEOF")
	r.Instance(rule, 1)
	n := int64(len(specEOF))
	why := ""
	// make([]byte, const) is `new [n]byte (makeslice)` + slice in go/ssa
	var mk ssa.Value
	mkLen := int64(-1)
	allInstrs(fn, func(ins ssa.Instruction) {
		switch m := ins.(type) {
		case *ssa.MakeSlice:
			mk = m
			if k, ok := constInt(m.Len); ok {
				mkLen = k
			}
		case *ssa.Alloc:
			if a, ok := m.Type().(*types.Pointer).Elem().Underlying().(*types.Array); ok && m.Comment == "makeslice" {
				mk = m
				mkLen = a.Len()
			}
		}
	})
	if mk == nil {
		why += " no buffer allocated;"
	} else if mkLen != n {
		why += fmt.Sprintf(" buffer length is not len(magicBlock)=%d;", n)
	}
	// ReadAt(b, size - n)
	okRead := false
	var readAt *ssa.Call
	allInstrs(fn, func(ins ssa.Instruction) {
		call, ok := ins.(*ssa.Call)
		if !ok || !call.Call.IsInvoke() || call.Call.Method.Name() != "ReadAt" {
			return
		}
		readAt = call
		if bo, ok := call.Call.Args[1].(*ssa.BinOp); ok && bo.Op == token.SUB {
			if k, isK := constInt(bo.Y); isK && k == n {
				okRead = true
			}
		}
		buf := strip(call.Call.Args[0])
		if sl, isSl := buf.(*ssa.Slice); isSl && sl.Low == nil {
			if k, isK := constInt(sl.High); sl.High == nil || (isK && k == mkLen) {
				buf = sl.X
			}
		}
		if mk != nil && buf != mk {
			okRead = false
		}
	})
	if !okRead {
		why += " ReadAt does not read the last len(magicBlock) bytes into the buffer;"
	}
	// every byte compared with the marker: a loop comparing b[i] with magicBlock[i]; `true` only after the loop
	cmp := false
	allInstrs(fn, func(ins ssa.Instruction) {
		bo, ok := ins.(*ssa.BinOp)
		if !ok || (bo.Op != token.NEQ && bo.Op != token.EQL) {
			return
		}
		isMagicIdx := func(v ssa.Value) bool {
			var x ssa.Value
			switch l := v.(type) {
			case *ssa.Lookup:
				x = l.X
			case *ssa.Index:
				x = l.X
			default:
				return false
			}
			k, isK := x.(*ssa.Const)
			return isK && k.Value != nil && k.Value.Kind() == constant.String && constant.StringVal(k.Value) == specEOF
		}
		if isMagicIdx(bo.X) || isMagicIdx(bo.Y) {
			cmp = true
		}
	})
	if !cmp {
		// bytes.Equal(b, []byte(magicBlock)) would be fine too
		allInstrs(fn, func(ins ssa.Instruction) {
			if call, ok := ins.(*ssa.Call); ok && calleeFullName(&call.Call) == "bytes.Equal" {
				cmp = true
			}
		})
	}
	if !cmp {
		why += " the bytes read are not compared with magicBlock;"
	}
	// a true result requires the read to have succeeded
	if readAt != nil {
		allInstrs(fn, func(ins ssa.Instruction) {
			ret, ok := ins.(*ssa.Return)
			if !ok {
				return
			}
			if k, isK := strip(ret.Results[0]).(*ssa.Const); isK && k.Value != nil && constant.BoolVal(k.Value) {
				if !instrDominates(readAt, ret) {
					why += " returns true on a path that did not read the tail;"
				}
			}
		})
	}
	r.Check(why == "", rule, "bgzf.HasEOF#tail", c.Pos(fn.Pos()), "reads the last 28 bytes and compares them with the marker", why)
}

// ruleFextraFirst: the BC subfield is the first subfield of Extra in every
// member header the writer emits.
func ruleFextraFirst(c *Ctx, r *Rep, tier string) {
	rule := "TAB-FEXTRA"
	wb := c.Func("bgzf", "(*compressor).writeBlock")
	r.Instance(rule, 1)
	ok := false
	allInstrs(wb, func(ins ssa.Instruction) {
		call, isCall := ins.(*ssa.Call)
		if !isCall {
			return
		}
		if _, isApp := isBuiltinCall(call, "append"); !isApp {
			return
		}
		if cv, isCv := strip(call.Call.Args[0]).(*ssa.Convert); isCv {
			if k, isK := cv.X.(*ssa.Const); isK && k.Value != nil && k.Value.Kind() == constant.String && constant.StringVal(k.Value) == specExtra {
				// result stored into a field named Extra
				for _, ref := range *call.Referrers() {
					if st, isSt := ref.(*ssa.Store); isSt {
						if fa, isFa := st.Addr.(*ssa.FieldAddr); isFa && fieldVarOfAddr(fa).Name() == "Extra" {
							ok = true
						}
					}
				}
			}
		}
	})
	r.Check(ok, rule, "bgzf.(*compressor).writeBlock#extra", c.Pos(wb.Pos()), "Extra = append([]byte(bgzfExtra), user extra…): BC subfield first", "the member header's Extra does not start with the BC subfield: readers that look at a fixed offset, and the writer's own back-patching of the first match, break")
}
